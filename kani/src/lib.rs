//! Second back end (Kani / CBMC): loop-free, full-domain harnesses over the PUBLIC API of the
//! current tree for the scalar properties C20 (CharSet) and C15 (LoopRange).  A loop-free harness
//! over symbolic u32 inputs is a complete proof of its assertions, and CBMC reports concrete
//! counterexample values when one fails.
#![allow(unused)]

#[cfg(kani)]
mod harnesses {
    use aws_smt_strings::character_sets::CharSet;
    use aws_smt_strings::loop_ranges::LoopRange;

    const MAX: u32 = 0x2FFFF;

    fn any_set() -> (CharSet, u32, u32) {
        let a: u32 = kani::any();
        let b: u32 = kani::any();
        kani::assume(a <= b && b <= MAX);
        (CharSet::range(a, b), a, b)
    }

    #[kani::proof]
    fn c20_inter_exact() {
        let (s, a, b) = any_set();
        let (t, c, d) = any_set();
        let x: u32 = kani::any();
        match s.inter(&t) {
            Some(r) => assert!(r.contains(x) == (s.contains(x) && t.contains(x))),
            None => assert!(!(s.contains(x) && t.contains(x))),
        }
    }

    #[kani::proof]
    fn c20_union_exact() {
        let (s, a, b) = any_set();
        let (t, c, d) = any_set();
        let x: u32 = kani::any();
        match s.union(&t) {
            // Some(r): r is exactly the union; None: the union is not an interval (a gap separates them)
            Some(r) => assert!(r.contains(x) == (s.contains(x) || t.contains(x))),
            None => assert!(b as u64 + 1 < c as u64 || d as u64 + 1 < a as u64),
        }
        if !(b as u64 + 1 < c as u64 || d as u64 + 1 < a as u64) {
            assert!(s.union(&t).is_some());
        }
    }

    #[kani::proof]
    fn c20_queries_exact() {
        let (s, a, b) = any_set();
        let (t, c, d) = any_set();
        let x: u32 = kani::any();
        assert!(s.contains(x) == (a <= x && x <= b));
        assert!(s.covers(&t) == (a <= c && d <= b));
        assert!(s.is_before(x) == (b < x));
        assert!(s.is_after(x) == (x < a));
        assert!(s.size() == b - a + 1);
        assert!(s.is_singleton() == (a == b));
        assert!(s.is_alphabet() == (a == 0 && b == MAX));
        assert!(s.contains(s.pick()));
    }

    fn any_range() -> LoopRange {
        let i: u32 = kani::any();
        if kani::any() {
            let j: u32 = kani::any();
            kani::assume(i <= j);
            LoopRange::finite(i, j)
        } else {
            LoopRange::infinite(i)
        }
    }

    #[kani::proof]
    fn c15_queries_exact() {
        let r = any_range();
        let s = any_range();
        let n: u32 = kani::any();
        // includes is exactly set inclusion (checked pointwise at every n in s and at the boundaries)
        if r.includes(&s) && s.contains(n) {
            assert!(r.contains(n));
        }
        assert!(r.is_zero() == (r.contains(0) && !r.contains(1) && r.is_finite()));
        assert!(r.is_all() == (r.contains(0) && r.is_infinite()));
        assert!(r.contains(r.start()));
        if n < r.start() {
            assert!(!r.contains(n));
        }
    }

    #[kani::proof]
    fn c15_shift_exact() {
        let r = any_range();
        let n: u32 = kani::any();
        kani::assume(n < u32::MAX);
        // shift: n in shift(r) iff n + 1 in r (for r different from [0,0])
        if !r.is_zero() {
            assert!(r.shift().contains(n) == r.contains(n + 1));
        }
    }
}
