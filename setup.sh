#!/bin/bash
# offline setup: nothing to download; make sure scratch dirs exist and tools respond
cd "$(dirname "$0")"
mkdir -p build evidence replays
verus --version >/dev/null 2>&1 || { echo "verus not found"; exit 1; }
python3 -c "import json" || exit 1
# prebuild the replay harness against /repo (offline; no dependencies)
python3 tools/replay_driver.py C20 0 1 >/dev/null 2>&1 || echo "warning: replay harness did not build"
exit 0
