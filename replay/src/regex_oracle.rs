//! Reference semantics for regular-expression construction programs and the checks that compare
//! the crate's answers with it (oracles for C01 C02 C03 C04 C05 C07 C10 C14 C16 C18 C19).
use super::{fail, guarded, watch, Ctx, Failure, MAXC};
use aws_smt_strings::automata::{Automaton, AutomatonBuilder};
use aws_smt_strings::character_sets::*;
use aws_smt_strings::regular_expressions::*;
use aws_smt_strings::smt_strings::SmtString;

#[derive(Clone, Debug)]
pub enum Ast {
    Empty,
    Eps,
    AllChars,
    Full,
    Range(u32, u32),
    Str(Vec<u32>),
    Concat(Box<Ast>, Box<Ast>),
    Union(Vec<Ast>),
    Inter(Vec<Ast>),
    Comp(Box<Ast>),
    Diff(Box<Ast>, Box<Ast>),
    Star(Box<Ast>),
    Plus(Box<Ast>),
    Opt(Box<Ast>),
    Exp(Box<Ast>, u32),
    Loop(Box<Ast>, u32, u32),
    ConcatList(Vec<Ast>),
    DiffList(Box<Ast>, Vec<Ast>),
}

pub fn good(w: &[u32]) -> bool {
    w.iter().all(|&c| c <= MAXC)
}

/// counts m such that w is a concatenation of m NON-EMPTY words of L(a)
fn nonempty_counts(a: &Ast, w: &[u32]) -> Vec<usize> {
    let n = w.len();
    // reach[p] = set of counts with which position p is reachable
    let mut reach: Vec<Vec<bool>> = vec![vec![false; n + 1]; n + 1];
    reach[0][0] = true;
    for p in 0..n {
        for m in 0..=n {
            if reach[p][m] {
                for q in p + 1..=n {
                    if m + 1 <= n && matches(a, &w[p..q]) {
                        reach[q][m + 1] = true;
                    }
                }
            }
        }
    }
    (0..=n).filter(|&m| reach[n][m]).collect()
}

fn in_powers(a: &Ast, w: &[u32], lo: u64, hi: Option<u64>) -> bool {
    if let Some(h) = hi {
        if lo > h {
            return false;
        }
    }
    let nullable = matches(a, &[]);
    for m in nonempty_counts(a, w) {
        let m = m as u64;
        if nullable {
            // pad with empty factors: any n >= m works
            let n = m.max(lo);
            if hi.map_or(true, |h| n <= h) {
                return true;
            }
        } else if m >= lo && hi.map_or(true, |h| m <= h) {
            return true;
        }
    }
    false
}

/// SMT-LIB 2.6 denotation
pub fn matches(a: &Ast, w: &[u32]) -> bool {
    match a {
        Ast::Empty => false,
        Ast::Eps => w.is_empty(),
        Ast::AllChars => w.len() == 1 && w[0] <= MAXC,
        Ast::Full => good(w),
        Ast::Range(x, y) => w.len() == 1 && *x <= w[0] && w[0] <= *y,
        Ast::Str(s) => w == &s[..],
        Ast::Concat(x, y) => (0..=w.len()).any(|i| matches(x, &w[..i]) && matches(y, &w[i..])),
        Ast::Union(l) => l.iter().any(|x| matches(x, w)),
        Ast::Inter(l) => good(w) && l.iter().all(|x| matches(x, w)),
        Ast::Comp(x) => good(w) && !matches(x, w),
        Ast::Diff(x, y) => matches(x, w) && !matches(y, w),
        Ast::Star(x) => in_powers(x, w, 0, None),
        Ast::Plus(x) => in_powers(x, w, 1, None),
        Ast::Opt(x) => w.is_empty() || matches(x, w),
        Ast::Exp(x, k) => in_powers(x, w, *k as u64, Some(*k as u64)),
        Ast::Loop(x, i, j) => in_powers(x, w, *i as u64, Some(*j as u64)),
        Ast::ConcatList(l) => match l.split_first() {
            None => w.is_empty(),
            Some((h, t)) => (0..=w.len()).any(|i| matches(h, &w[..i]) && matches(&Ast::ConcatList(t.to_vec()), &w[i..])),
        },
        Ast::DiffList(x, l) => matches(x, w) && l.iter().all(|y| !matches(y, w)),
    }
}

pub fn build(m: &mut ReManager, a: &Ast) -> RegLan {
    match a {
        Ast::Empty => m.empty(),
        Ast::Eps => m.epsilon(),
        Ast::AllChars => m.all_chars(),
        Ast::Full => m.full(),
        Ast::Range(x, y) => m.range(*x, *y),
        Ast::Str(s) => m.str(&SmtString::from(&s[..])),
        Ast::Concat(x, y) => {
            let a = build(m, x);
            let b = build(m, y);
            m.concat(a, b)
        }
        Ast::Union(l) => {
            let v: Vec<RegLan> = l.iter().map(|x| build(m, x)).collect();
            if v.len() == 2 {
                m.union(v[0], v[1])
            } else {
                m.union_list(v)
            }
        }
        Ast::Inter(l) => {
            let v: Vec<RegLan> = l.iter().map(|x| build(m, x)).collect();
            if v.len() == 2 {
                m.inter(v[0], v[1])
            } else {
                m.inter_list(v)
            }
        }
        Ast::Comp(x) => {
            let a = build(m, x);
            m.complement(a)
        }
        Ast::Diff(x, y) => {
            let a = build(m, x);
            let b = build(m, y);
            m.diff(a, b)
        }
        Ast::Star(x) => {
            let a = build(m, x);
            m.star(a)
        }
        Ast::Plus(x) => {
            let a = build(m, x);
            m.plus(a)
        }
        Ast::Opt(x) => {
            let a = build(m, x);
            m.opt(a)
        }
        Ast::Exp(x, k) => {
            let a = build(m, x);
            m.exp(a, *k)
        }
        Ast::Loop(x, i, j) => {
            let a = build(m, x);
            m.smt_loop(a, *i, *j)
        }
        Ast::ConcatList(l) => {
            let v: Vec<RegLan> = l.iter().map(|x| build(m, x)).collect();
            m.concat_list(v)
        }
        Ast::DiffList(x, l) => {
            let a = build(m, x);
            let v: Vec<RegLan> = l.iter().map(|x| build(m, x)).collect();
            m.diff_list(a, v)
        }
    }
}

/// build through the SMT-LIB named wrappers (thread-local manager)
pub fn bw(a: &Ast) -> RegLan {
    use aws_smt_strings::smt_regular_expressions as sre;
    match a {
        Ast::Empty => sre::re_none(),
        Ast::Eps => sre::str_to_re(&SmtString::from(&[][..] as &[u32])),
        Ast::AllChars => sre::re_allchar(),
        Ast::Full => sre::re_all(),
        Ast::Range(x, y) => sre::re_range(&SmtString::from(*x), &SmtString::from(*y)),
        Ast::Str(s) => sre::str_to_re(&SmtString::from(&s[..])),
        Ast::Concat(x, y) => sre::re_concat(bw(x), bw(y)),
        Ast::Union(l) => sre::re_union_list(l.iter().map(bw).collect::<Vec<_>>()),
        Ast::Inter(l) => sre::re_inter_list(l.iter().map(bw).collect::<Vec<_>>()),
        Ast::Comp(x) => sre::re_comp(bw(x)),
        Ast::Diff(x, y) => sre::re_diff(bw(x), bw(y)),
        Ast::Star(x) => sre::re_star(bw(x)),
        Ast::Plus(x) => sre::re_plus(bw(x)),
        Ast::Opt(x) => sre::re_opt(bw(x)),
        Ast::Exp(x, k) => sre::re_power(bw(x), *k),
        Ast::Loop(x, i, j) => sre::re_loop(bw(x), *i, *j),
        Ast::ConcatList(l) => sre::re_concat_list(l.iter().map(bw).collect::<Vec<_>>()),
        Ast::DiffList(x, l) => sre::re_diff_list(bw(x), l.iter().map(bw).collect::<Vec<_>>()),
    }
}

const A: u32 = 97;

pub fn atoms() -> Vec<Ast> {
    vec![
        Ast::Empty,
        Ast::Eps,
        Ast::AllChars,
        Ast::Full,
        Ast::Range(A, A),
        Ast::Range(A + 1, A + 1),
        Ast::Range(A, A + 1),
        Ast::Range(A + 1, A + 2),
        Ast::Range(0, A),
        Ast::Range(A + 2, MAXC),
        Ast::Str(vec![A, A + 1]),
        Ast::Str(vec![A, A]),
        Ast::Str(vec![A + 1, A, A + 1]),
    ]
}

pub fn random_ast(ctx: &mut Ctx, depth: u32) -> Ast {
    let at = atoms();
    if depth == 0 || ctx.below(4) == 0 {
        return at[ctx.below(at.len() as u64) as usize].clone();
    }
    let sub = |ctx: &mut Ctx| Box::new(random_ast(ctx, depth - 1));
    match ctx.below(14) {
        12 => {
            let n = ctx.below(4);
            Ast::ConcatList((0..n).map(|_| random_ast(ctx, depth - 1)).collect())
        }
        13 => {
            let n = ctx.below(3);
            let x = sub(ctx);
            Ast::DiffList(x, (0..n).map(|_| random_ast(ctx, depth - 1)).collect())
        }
        0 | 1 => Ast::Concat(sub(ctx), sub(ctx)),
        2 => {
            let n = 2 + ctx.below(2);
            Ast::Union((0..n).map(|_| random_ast(ctx, depth - 1)).collect())
        }
        3 => {
            let n = 2 + ctx.below(2);
            Ast::Inter((0..n).map(|_| random_ast(ctx, depth - 1)).collect())
        }
        4 => Ast::Comp(sub(ctx)),
        5 => Ast::Diff(sub(ctx), sub(ctx)),
        6 => Ast::Star(sub(ctx)),
        7 => Ast::Plus(sub(ctx)),
        8 => Ast::Opt(sub(ctx)),
        9 => Ast::Exp(sub(ctx), ctx.below(4) as u32),
        _ => {
            let i = ctx.below(3) as u32;
            let j = ctx.below(4) as u32;
            Ast::Loop(sub(ctx), i, j)
        }
    }
}

/// hand-made shapes that the random generator reaches rarely
pub fn special_asts() -> Vec<Ast> {
    let a = || Box::new(Ast::Range(A, A));
    let b = || Box::new(Ast::Range(A + 1, A + 1));
    vec![
        Ast::Star(Box::new(Ast::Empty)),
        Ast::Opt(Box::new(Ast::Empty)),
        Ast::Loop(Box::new(Ast::Empty), 0, 3),
        Ast::Loop(Box::new(Ast::Empty), 1, 3),
        Ast::Loop(a(), 3, 2),
        Ast::Concat(a(), Box::new(Ast::Star(a()))),
        Ast::Concat(Box::new(Ast::Star(a())), a()),
        Ast::Concat(Box::new(Ast::Plus(a())), Box::new(Ast::Plus(a()))),
        Ast::Concat(Box::new(Ast::Loop(a(), 1, 2)), Box::new(Ast::Loop(a(), 0, 1))),
        Ast::Concat(a(), a()),
        Ast::Loop(Box::new(Ast::Loop(a(), 2, 3)), 0, 1),
        Ast::Loop(Box::new(Ast::Loop(a(), 2, 2)), 2, 3),
        Ast::Star(Box::new(Ast::Loop(a(), 2, 3))),
        Ast::Plus(Box::new(Ast::Exp(a(), 2))),
        Ast::Star(Box::new(Ast::Opt(a()))),
        Ast::Inter(vec![Ast::AllChars, Ast::Str(vec![A, A + 1])]),
        Ast::Inter(vec![Ast::Range(A, A + 1), Ast::Range(A + 1, A + 2)]),
        Ast::Concat(Box::new(Ast::Inter(vec![Ast::Range(A, A), Ast::Range(A + 1, A + 1)])), b()),
        Ast::Concat(a(), Box::new(Ast::Inter(vec![Ast::Range(A, A), Ast::Range(A + 1, A + 1)]))),
        Ast::Comp(Box::new(Ast::Full)),
        Ast::Comp(Box::new(Ast::Comp(a()))),
        Ast::Union(vec![Ast::Concat(a(), Box::new(Ast::Full)), Ast::Concat(a(), b())]),
        Ast::Union(vec![Ast::Concat(a(), b()), Ast::Concat(a(), Box::new(Ast::Full))]),
        Ast::Union(vec![Ast::Concat(Box::new(Ast::Full), b()), Ast::Concat(a(), b()), Ast::Eps]),
        Ast::Concat(Box::new(Ast::Opt(a())), Box::new(Ast::Full)),
        Ast::Diff(Box::new(Ast::Full), Box::new(Ast::Star(a()))),
        // singleton words written with loops over multi-character blocks
        Ast::Exp(Box::new(Ast::Str(vec![A, A + 1])), 2),
        Ast::Concat(Box::new(Ast::Str(vec![A, A + 1])), Box::new(Ast::Str(vec![A, A + 1]))),
        Ast::ConcatList(vec![Ast::Range(A + 2, A + 2), Ast::Exp(Box::new(Ast::Str(vec![A, A + 1])), 3), Ast::Range(A + 2, A + 2)]),
        Ast::Comp(Box::new(Ast::Union(vec![Ast::Eps, Ast::Concat(Box::new(Ast::Range(0, MAXC - 1)), Box::new(Ast::Full))]))),
        // list constructors with repeated operands
        Ast::ConcatList(vec![Ast::Opt(a()), Ast::Opt(a())]),
        Ast::ConcatList(vec![Ast::Range(A + 2, A + 2), Ast::Loop(a(), 0, 2), Ast::Loop(a(), 0, 2), Ast::Range(A + 2, A + 2)]),
        Ast::ConcatList(vec![Ast::Star(a()), Ast::Star(a()), Ast::Eps, Ast::Range(A + 1, A + 1)]),
        Ast::ConcatList(vec![]),
        // unions of complements where one complemented operand includes the other (subsumption of complement pairs)
        Ast::Union(vec![Ast::Comp(Box::new(Ast::Range(A, A))), Ast::Comp(Box::new(Ast::Range(A, A + 3)))]),
        Ast::Union(vec![Ast::Comp(Box::new(Ast::Str(vec![A, A + 1]))), Ast::Comp(Box::new(Ast::Concat(Box::new(Ast::Str(vec![A, A + 1])), Box::new(Ast::Full))))]),
        // derivative classes that leave exactly one character (the last one / the first one) to the complementary class
        Ast::Range(0, MAXC - 1),
        Ast::Range(1, MAXC),
        Ast::Inter(vec![
            Ast::Concat(Box::new(Ast::Range(A + 1, A + 1)), Box::new(Ast::Comp(Box::new(Ast::Union(vec![Ast::Eps, Ast::Concat(Box::new(Ast::Range(0, MAXC - 1)), Box::new(Ast::Full))]))))),
            Ast::Comp(Box::new(Ast::Range(A + 2, A + 2))),
        ]),
        Ast::DiffList(Box::new(Ast::Plus(Box::new(Ast::Range(A, A + 2)))), vec![Ast::Inter(vec![Ast::Exp(Box::new(Ast::AllChars), 3), Ast::Concat(a(), Box::new(Ast::Full))])]),
        Ast::DiffList(Box::new(Ast::Full), vec![]),
        Ast::Range(A, A),
        Ast::Union(vec![Ast::Star(a()), Ast::Comp(Box::new(Ast::Star(a())))]),
        Ast::Inter(vec![Ast::Plus(a()), Ast::Comp(Box::new(Ast::Plus(a())))]),
        // two terms each detectably included in the other (intersections are not pruned by subsumption)
        Ast::Str(vec![A, A + 1]),
        Ast::Inter(vec![Ast::Str(vec![A, A + 1]), Ast::Concat(Box::new(Ast::Full), b())]),
        Ast::Inter(vec![Ast::Concat(a(), Box::new(Ast::Full)), Ast::Concat(Box::new(Ast::Full), b())]),
        Ast::Concat(a(), Box::new(Ast::Concat(Box::new(Ast::Plus(b())), Box::new(Ast::Range(A + 2, A + 2))))),
        Ast::Str(vec![A, A + 2]),
        // a union nested under an intersection / a complement, next to a sibling that includes only one of its members
        Ast::Union(vec![Ast::Inter(vec![Ast::Union(vec![Ast::Str(vec![A, A + 1]), Ast::Str(vec![A + 2, A])]), Ast::Exp(Box::new(Ast::AllChars), 2)]), Ast::Concat(a(), Box::new(Ast::Full))]),
        Ast::Union(vec![Ast::Concat(a(), Box::new(Ast::Full)), Ast::Inter(vec![Ast::Union(vec![Ast::Str(vec![A + 2, A]), Ast::Str(vec![A, A + 1])]), Ast::Exp(Box::new(Ast::AllChars), 2)])]),
        Ast::Union(vec![Ast::Comp(Box::new(Ast::Concat(a(), Box::new(Ast::Full)))), Ast::Comp(Box::new(Ast::Union(vec![Ast::Str(vec![A, A + 1]), Ast::Str(vec![A + 2, A])])))]),
        Ast::Union(vec![Ast::Comp(Box::new(Ast::Union(vec![Ast::Str(vec![A + 2, A]), Ast::Str(vec![A, A + 1])]))), Ast::Comp(Box::new(Ast::Concat(a(), Box::new(Ast::Full))))]),
        // the same, cut down to the member that would be lost (emptiness then depends on it)
        Ast::Inter(vec![Ast::Union(vec![Ast::Inter(vec![Ast::Union(vec![Ast::Str(vec![A, A + 1]), Ast::Str(vec![A + 2, A])]), Ast::Exp(Box::new(Ast::AllChars), 2)]), Ast::Concat(a(), Box::new(Ast::Full))]), Ast::Str(vec![A + 2, A])]),
        Ast::Inter(vec![Ast::Union(vec![Ast::Comp(Box::new(Ast::Concat(a(), Box::new(Ast::Full)))), Ast::Comp(Box::new(Ast::Union(vec![Ast::Str(vec![A, A + 1]), Ast::Str(vec![A + 2, A])])))]), Ast::Str(vec![A + 2, A])]),
    ]
}

pub fn words() -> Vec<Vec<u32>> {
    let alpha = [A, A + 1, A + 2];
    let mut v: Vec<Vec<u32>> = vec![vec![]];
    let mut cur: Vec<Vec<u32>> = vec![vec![]];
    for _ in 0..4 {
        let mut nxt = Vec::new();
        for s in &cur {
            for &c in &alpha {
                let mut t = s.clone();
                t.push(c);
                nxt.push(t);
            }
        }
        v.extend(nxt.iter().cloned());
        cur = nxt;
    }
    v.push(vec![0]);
    v.push(vec![MAXC]);
    v.push(vec![A, 0, MAXC]);
    v
}

fn sm(w: &[u32]) -> SmtString {
    SmtString::from(w)
}

fn show(a: &Ast) -> String {
    format!("{:?}", a)
}

// ---------------------------------------------------------------- C01 / C07
pub fn c01(ctx: &mut Ctx) -> Option<Failure> {
    let ws = words();
    let mut asts = special_asts();
    for a in atoms() {
        asts.push(a);
    }
    for _ in 0..3000 {
        asts.push(random_ast(ctx, 3));
    }
    // a term with more than 255 derivative classes, queried in two orders (the answers must not depend on what the
    // derivative table already holds)
    for reversed in [false, true] {
        let r = ctx.case(|| {
            watch(format!("union of 300 one-character strings chr(1000+2i), queries {}", if reversed { "reversed" } else { "in order" }));
            let mut m = ReManager::new();
            let letter = |i: u32| 1000 + 2 * i;
            let chars: Vec<RegLan> = (0..300).map(|i| m.char(letter(i))).collect();
            let e = m.union_list(chars);
            let ne = m.complement(e);
            let x = 'x' as u32;
            let mut qs: Vec<(bool, Vec<u32>)> = Vec::new();
            for i in [0u32, 1, 100, 254, 255, 256, 299] {
                let c = letter(i);
                for w in [vec![c], vec![c, x], vec![c, x, x], vec![c + 1], vec![x], vec![x, x], vec![]] {
                    qs.push((false, w.clone()));
                    qs.push((true, w));
                }
            }
            if reversed {
                qs.reverse();
            }
            for (on_comp, w) in qs {
                let in_e = w.len() == 1 && w[0] >= 1000 && w[0] < 1600 && (w[0] - 1000) % 2 == 0;
                let exp = if on_comp { !in_e } else { in_e };
                let got = m.str_in_re(&sm(&w), if on_comp { ne } else { e });
                if got != exp {
                    return fail("ReManager::str_in_re(300 classes)", format!("union of chr(1000+2i), i<300; complement={} word={:?} queries {}", on_comp, w, if reversed { "reversed" } else { "in order" }), format!("{}", exp), format!("{}", got));
                }
            }
            None
        });
        if r.is_some() {
            return r;
        }
    }
    // one-character terms must not alias: characters equal modulo 128 / 256 / 65536, built in both orders
    for reversed in [false, true] {
        let r = ctx.case(|| {
            let mut cs: Vec<u32> = vec![A, A + 0x80, A + 0x100, A + 0x10000, A + 0x20000, 0x2FF00 + A, 0, 0x80, 0x7F, 0xFF, 0x10000, MAXC];
            if reversed {
                cs.reverse();
            }
            watch(format!("char(c) for c in {:?}", cs));
            let mut m = ReManager::new();
            let ts: Vec<RegLan> = cs.iter().map(|&c| m.char(c)).collect();
            let ss: Vec<RegLan> = cs.iter().map(|&c| m.str(&sm(&[c, c]))).collect();
            for (i, &c) in cs.iter().enumerate() {
                for &d in &cs {
                    if m.str_in_re(&sm(&[d]), ts[i]) != (c == d) || m.str_in_re(&sm(&[d, d]), ss[i]) != (c == d) {
                        return fail("ReManager::char(history)", format!("chars built in the order {:?}; term for {} asked about {}", cs, c, d), format!("{}", c == d), format!("{}", c != d));
                    }
                }
                if !std::ptr::eq(m.char(c), ts[i]) {
                    return fail("ReManager::char(identity)", format!("chars built in the order {:?}; char({}) repeated", cs, c), "the same term".into(), "another term".into());
                }
            }
            None
        });
        if r.is_some() {
            return r;
        }
    }
    // the wrappers that search (str_replace_re_all) use the thread-local manager: their answers must not depend on
    // how many unrelated terms that manager already holds (each spawned thread has a fresh thread-local manager)
    for history in [0u32, 1, 2, 3, 5, 8, 50] {
        let r = ctx.case(|| {
            watch(format!("str_replace_re_all(_, (ab)*c, \"_\") on a thread whose manager first built {} unrelated terms", history));
            use aws_smt_strings::smt_regular_expressions as sre;
            let res = std::thread::spawn(move || {
                for i in 0..history {
                    let x = sre::re_range(&SmtString::from(0x100 + i), &SmtString::from(0x200 + i));
                    let _ = sre::re_comp(sre::re_star(x));
                }
                let ab = sre::str_to_re(&SmtString::from(&[A, A + 1][..]));
                let c = sre::str_to_re(&SmtString::from(&[A + 2][..]));
                let pat = sre::re_concat(sre::re_star(ab), c);
                let inputs: Vec<Vec<u32>> = vec![vec![A, A + 1, A, A + 1, A + 2], vec![120, 120, A, A + 1, A + 2, 100, 101, 120], vec![A + 2]];
                inputs.iter().map(|w| sre::str_replace_re_all(&SmtString::from(&w[..]), pat, &SmtString::from(&[95u32][..])).as_ref().to_vec()).collect::<Vec<Vec<u32>>>()
            })
            .join();
            let exp: Vec<Vec<u32>> = vec![vec![95], vec![120, 120, 95, 100, 101, 120], vec![95]];
            match res {
                Ok(got) if got == exp => None,
                Ok(got) => fail("smt_regular_expressions::str_replace_re_all(history)", format!("pattern (ab)*c, inputs ababc / xxabcdex / c, {} unrelated terms built first", history), format!("{:?}", exp), format!("{:?}", got)),
                Err(_) => fail("smt_regular_expressions::str_replace_re_all(history)", format!("{} unrelated terms built first", history), "a result".into(), "panic".into()),
            }
        });
        if r.is_some() {
            return r;
        }
    }
    let mut shared = ReManager::new();
    for (n, ast) in asts.into_iter().enumerate() {
        if ctx.out_of_time() {
            break;
        }
        // every third construction starts from a fresh manager (the result must not depend on history)
        let mut fresh = ReManager::new();
        let m: &mut ReManager = if n % 3 == 1 { &mut fresh } else { &mut shared };
        let r = ctx.case(|| {
            watch(show(&ast));
            let e = match guarded(|| build(m, &ast)) {
                Ok(e) => e,
                Err(p) => return fail("constructors", show(&ast), "no panic".into(), p),
            };
            if e.nullable != matches(&ast, &[]) {
                return fail("RE::nullable", show(&ast), format!("{}", matches(&ast, &[])), format!("{}", e.nullable));
            }
            for w in &ws {
                let exp = matches(&ast, w);
                let got = m.str_in_re(&sm(w), e);
                if got != exp {
                    return fail("ReManager::str_in_re", format!("{} word={:?}", show(&ast), w), format!("{}", exp), format!("{}", got));
                }
            }
            // the same construction through the SMT-LIB-named wrappers (thread-local manager)
            if n % 4 == 0 {
                use aws_smt_strings::smt_regular_expressions as sre;
                let ew = bw(&ast);
                // hash-consing holds for the wrappers too: the same construction is the same object
                if !std::ptr::eq(ew, bw(&ast)) {
                    return fail("smt_regular_expressions wrappers(hash-consing)", show(&ast), "identical term".into(), "different object".into());
                }
                for w in &ws {
                    let exp = matches(&ast, w);
                    let got = sre::str_in_re(&sm(w), ew);
                    if got != exp {
                        return fail("smt_regular_expressions wrappers", format!("{} word={:?}", show(&ast), w), format!("{}", exp), format!("{}", got));
                    }
                }
            }
            // hash-consing: the same construction again, after other terms exist, is the same term
            let e2 = build(m, &ast);
            if !std::ptr::eq(e, e2) || e != e2 {
                return fail("hash-consing(same construction)", show(&ast), "identical term".into(), "different term".into());
            }
            let c = m.complement(e);
            let cc = m.complement(c);
            if std::ptr::eq(c, e) || !std::ptr::eq(cc, e) {
                return fail("ReManager::complement(involution)", show(&ast), "complement(complement(e)) is e and complement(e) differs".into(), "violated".into());
            }
            None
        });
        if r.is_some() {
            return r;
        }
    }
    None
}

// ---------------------------------------------------------------- C03
pub fn c03(ctx: &mut Ctx) -> Option<Failure> {
    let ws: Vec<Vec<u32>> = words().into_iter().filter(|w| w.len() <= 3).collect();
    let chars = [0u32, A - 1, A, A + 1, A + 2, A + 3, MAXC];
    let mut asts = special_asts();
    for _ in 0..1500 {
        asts.push(random_ast(ctx, 3));
    }
    let mut m = ReManager::new();
    for ast in asts {
        if ctx.out_of_time() {
            break;
        }
        let r = ctx.case(|| {
            watch(show(&ast));
            let e = build(&mut m, &ast);
            for &c in &chars {
                let d = m.char_derivative(e, c);
                for w in &ws {
                    let mut cw = vec![c];
                    cw.extend_from_slice(w);
                    let exp = matches(&ast, &cw);
                    let got = m.str_in_re(&sm(w), d);
                    if got != exp {
                        return fail("ReManager::char_derivative", format!("{} c={} w={:?}", show(&ast), c, w), format!("{}", exp), format!("{}", got));
                    }
                }
                // the derivative for the singleton set is the same term
                match m.set_derivative(e, &CharSet::singleton(c)) {
                    Ok(d2) if std::ptr::eq(d, d2) => {}
                    other => return fail("ReManager::set_derivative(singleton)", format!("{} c={}", show(&ast), c), "the char derivative".into(), format!("{:?}", other.map(|x| x.to_string()))),
                }
            }
            // class ids: every class derivative is the derivative for both ends of the class
            let ranges: Vec<(u32, u32)> = e.char_ranges().map(|s| (s.pick(), s.pick() + (s.size() - 1))).collect();
            for (k, &(lo, hi)) in ranges.iter().enumerate() {
                let cd = match m.class_derivative(e, ClassId::Interval(k)) {
                    Ok(x) => x,
                    Err(er) => return fail("ReManager::class_derivative", format!("{} class {}", show(&ast), k), "Ok".into(), format!("{:?}", er)),
                };
                for c in [lo, hi] {
                    let d = m.char_derivative(e, c);
                    if !std::ptr::eq(d, cd) {
                        return fail("ReManager::class_derivative(uniform)", format!("{} class [{},{}] char {}", show(&ast), lo, hi, c), "same derivative".into(), "different".into());
                    }
                }
                // a set straddling the class boundary is ambiguous
                if hi < MAXC {
                    let s = CharSet::range(hi, hi + 1);
                    let covered_or_disjoint = ranges.iter().any(|&(a, b)| a <= hi && hi + 1 <= b) || ranges.iter().all(|&(a, b)| b < hi || hi + 1 < a);
                    let got = m.set_derivative(e, &s);
                    if got.is_ok() != covered_or_disjoint {
                        return fail("ReManager::set_derivative(straddling)", format!("{} set [{},{}]", show(&ast), hi, hi + 1), format!("is_ok = {}", covered_or_disjoint), format!("is_ok = {}", got.is_ok()));
                    }
                }
            }
            // the three listings of the classes agree: char_ranges, class_ids, num_deriv_classes
            let listed: Vec<ClassId> = e.class_ids().collect();
            let n_int = listed.iter().filter(|c| matches!(c, ClassId::Interval(_))).count();
            if e.num_deriv_classes() != ranges.len() || n_int != ranges.len() || listed.iter().take(n_int).enumerate().any(|(i, c)| *c != ClassId::Interval(i)) {
                return fail("RE::num_deriv_classes/class_ids/char_ranges", show(&ast), format!("{} interval classes listed consistently", ranges.len()), format!("num_deriv_classes {} class_ids {:?}", e.num_deriv_classes(), listed));
            }
            // the listed classes cover the alphabet
            let cov: u64 = ranges.iter().map(|&(lo, hi)| (hi - lo) as u64 + 1).sum();
            if listed.contains(&ClassId::Complement) != (cov < MAXC as u64 + 1) || ranges.windows(2).any(|w| w[0].1 >= w[1].0) {
                return fail("RE::class_ids(cover the alphabet)", show(&ast), "Complement listed iff the intervals leave characters out".into(), format!("{:?} with intervals {:?}", listed, ranges));
            }
            if m.class_derivative(e, ClassId::Interval(ranges.len())).is_ok() {
                return fail("ReManager::class_derivative(bad id)", show(&ast), "Err(BadClassId)".into(), "Ok".into());
            }
            if m.class_derivative(e, ClassId::Complement).is_ok() == e.empty_complement() {
                return fail("ReManager::class_derivative(complement)", show(&ast), format!("is_ok = {}", !e.empty_complement()), "opposite".into());
            }
            None
        });
        if r.is_some() {
            return r;
        }
    }
    None
}

// ---------------------------------------------------------------- automata helpers
fn accepts_ref(a: &Automaton, w: &[u32]) -> Result<bool, String> {
    guarded(|| a.accepts(&sm(w)))
}

/// number of Myhill-Nerode classes among the states reachable from the initial state
/// number of Myhill-Nerode classes among the reachable states (all == false) or among all states (all == true: minimize keeps unreachable states)
fn nerode_classes(a: &Automaton, all: bool) -> usize {
    let alpha = a.pick_alphabet();
    // reachable states
    let n = a.num_states();
    let mut reach = vec![false; n];
    let mut stack = vec![a.initial_state().id()];
    reach[stack[0]] = true;
    while let Some(q) = stack.pop() {
        for &c in &alpha {
            let t = a.next(a.state(q), c).id();
            if !reach[t] {
                reach[t] = true;
                stack.push(t);
            }
        }
    }
    let states: Vec<usize> = (0..n).filter(|&q| all || reach[q]).collect();
    let mut class: Vec<usize> = vec![0; n];
    for &q in &states {
        class[q] = if a.state(q).is_final() { 1 } else { 0 };
    }
    loop {
        let mut sigs: Vec<(usize, Vec<usize>)> = Vec::new();
        let mut newc = vec![0usize; n];
        for &q in &states {
            let sig = (class[q], alpha.iter().map(|&c| class[a.next(a.state(q), c).id()]).collect::<Vec<_>>());
            let id = match sigs.iter().position(|s| *s == sig) {
                Some(i) => i,
                None => {
                    sigs.push(sig);
                    sigs.len() - 1
                }
            };
            newc[q] = id;
        }
        let old_n = {
            let mut v: Vec<usize> = states.iter().map(|&q| class[q]).collect();
            v.sort();
            v.dedup();
            v.len()
        };
        class = newc;
        if sigs.len() == old_n {
            return sigs.len();
        }
    }
}

/// a random complete automaton over states 0..n (some unreachable), transitions on 'a','b','c' and a default
fn random_builder_automaton(ctx: &mut Ctx) -> (Automaton, String) {
    let n = 2 + ctx.below(5) as u32;
    // every other automaton has `lo` states without incoming transitions (targets are drawn from lo..n): the initial
    // state plus unreachable states that the minimizer still has to tell apart
    let lo = if ctx.below(2) == 0 { 0 } else { 1 + ctx.below(std::cmp::min(3, n as u64 - 1)) as u32 };
    let mut b = AutomatonBuilder::new(&0u32);
    let mut desc = format!("builder automaton with {} states:", n);
    for q in 0..n {
        let d = lo + ctx.below((n - lo) as u64) as u32;
        b.set_default_successor(&q, &d);
        desc.push_str(&format!(" [{}: default->{}", q, d));
        if ctx.below(4) == 0 {
            // one label that is a range: other states cut it with their own labels, so the combined partition has
            // classes that are not a class of any single state
            let (x, y) = [(A, A + 3), (A + 1, A + 2), (A, A + 1), (A + 2, A + 3)][ctx.below(4) as usize];
            let t = lo + ctx.below((n - lo) as u64) as u32;
            b.add_transition(&q, &CharSet::range(x, y), &t);
            desc.push_str(&format!(" [{},{}]->{}", x, y, t));
        } else {
            for (k, c) in [A, A + 1, A + 2].iter().enumerate() {
                if ctx.below(3) != 0 {
                    let t = lo + ctx.below((n - lo) as u64) as u32;
                    if t != d || k == 0 {
                        b.add_transition(&q, &CharSet::singleton(*c), &t);
                        desc.push_str(&format!(" {}->{}", c, t));
                    }
                }
            }
        }
        if ctx.below(3) == 0 {
            b.mark_final(&q);
            desc.push_str(" final");
        }
        desc.push(']');
    }
    (b.build().unwrap(), desc)
}

pub fn builder_automata_checks(ctx: &mut Ctx, which: &str) -> Option<Failure> {
    let ws = words();
    for _ in 0..1500 {
        if ctx.out_of_time() {
            break;
        }
        let (mut a, desc) = random_builder_automaton(ctx);
        let ctx_flip = ctx.below(2) == 0;
        let r = ctx.case(|| {
            watch(desc.clone());
            let before: Vec<bool> = ws.iter().map(|w| a.accepts(&sm(w))).collect();
            // reference reachability
            let n = a.num_states();
            let mut reach = vec![false; n];
            let mut stack = vec![a.initial_state().id()];
            reach[stack[0]] = true;
            while let Some(q) = stack.pop() {
                for c in [A, A + 1, A + 2, A + 3, 0, MAXC] {
                    let t = a.next(a.state(q), c).id();
                    if !reach[t] {
                        reach[t] = true;
                        stack.push(t);
                    }
                }
            }
            let nreach = reach.iter().filter(|&&x| x).count();
            if which == "C14" {
                if ctx_flip {
                    // renumber first (minimize keeps the language): the initial state need not be state 0 afterwards
                    let _ = guarded(|| a.minimize());
                    let after_min: Vec<Result<bool, String>> = ws.iter().map(|w| accepts_ref(&a, w)).collect();
                    for (i, w) in ws.iter().enumerate() {
                        if after_min[i] != Ok(before[i]) {
                            return None; // a C04 matter, not decided here
                        }
                    }
                }
                let n = a.num_states();
                let mut reach = vec![false; n];
                let mut stack = vec![a.initial_state().id()];
                reach[stack[0]] = true;
                while let Some(q) = stack.pop() {
                    for c in [A, A + 1, A + 2, A + 3, 0, MAXC] {
                        let t = a.next(a.state(q), c).id();
                        if !reach[t] {
                            reach[t] = true;
                            stack.push(t);
                        }
                    }
                }
                let nreach = reach.iter().filter(|&&x| x).count();
                let alpha = a.pick_alphabet();
                // exactly one character of each class of the combined partition
                let cp = a.combined_char_partition();
                let mut seen_classes: Vec<ClassId> = Vec::new();
                for &c in &alpha {
                    let cid = cp.class_of_char(c);
                    if seen_classes.contains(&cid) {
                        return fail("Automaton::pick_alphabet", desc.clone(), "one character per class of combined_char_partition".into(), format!("two characters of class {:?} in {:?}", cid, alpha));
                    }
                    seen_classes.push(cid);
                }
                if alpha.len() != cp.num_classes() {
                    return fail("Automaton::pick_alphabet", desc.clone(), format!("{} characters (classes of combined_char_partition)", cp.num_classes()), format!("{:?}", alpha));
                }
                let table = a.compile_successors();
                for q in 0..n {
                    for (j, &c) in alpha.iter().enumerate() {
                        let exp = a.next(a.state(q), c).id() as u32;
                        let got = table.eval(q as u32, j as u32);
                        if got != exp {
                            return fail("Automaton::compile_successors", format!("{} state {} letter#{}={}", desc, q, j, c), format!("{}", exp), format!("{}", got));
                        }
                    }
                    // every edge agrees with next on a character of its class
                    let st = a.state(q);
                    let mut cnt = 0;
                    for (cid, nxt) in a.edges(st) {
                        cnt += 1;
                        if a.class_next(st, cid).id() != nxt.id() {
                            return fail("Automaton::edges", format!("{} state {} class {:?}", desc, q, cid), "the successor for that class".into(), format!("state {}", nxt.id()));
                        }
                    }
                    // accessors describe the same structure: default successor, labels, class ids, one pick per class
                    match (st.default_successor(), a.default_successor(st)) {
                        (None, None) => {}
                        (Some(d), Some(ds)) if ds.id() == d && a.class_next(st, ClassId::Complement).id() == d => {}
                        (d, ds) => return fail("Automaton::default_successor", format!("{} state {}", desc, q), format!("{:?}", d), format!("{:?}", ds.map(|x| x.id()))),
                    }
                    let labels: Vec<CharSet> = st.char_ranges().copied().collect();
                    if labels.len() != st.num_successors() || labels.iter().enumerate().any(|(i, l)| st.class_of_char(l.pick()) != ClassId::Interval(i) || st.class_of_char(l.pick() + (l.size() - 1)) != ClassId::Interval(i)) {
                        return fail("State::char_ranges", format!("{} state {}", desc, q), format!("the {} transition labels in class order", st.num_successors()), format!("{:?}", labels));
                    }
                    let cids: Vec<ClassId> = st.char_classes().collect();
                    let picks: Vec<u32> = st.char_picks().collect();
                    let edge_ids: Vec<ClassId> = a.edges(st).map(|(cid, _)| cid).collect();
                    if cids != edge_ids {
                        return fail("State::char_classes", format!("{} state {}", desc, q), format!("{:?}", edge_ids), format!("{:?}", cids));
                    }
                    if picks.len() != cids.len() || picks.iter().zip(cids.iter()).any(|(&c, &cid)| st.class_of_char(c) != cid) {
                        return fail("State::char_picks", format!("{} state {}", desc, q), format!("one character of each class {:?}", cids), format!("{:?}", picks));
                    }
                    let expc = st.num_successors() + if st.has_default_successor() { 1 } else { 0 };
                    if cnt != expc {
                        return fail("Automaton::edges(count)", format!("{} state {}", desc, q), format!("{}", expc), format!("{}", cnt));
                    }
                }
                let ids: Vec<usize> = a.states().map(|s| s.id()).collect();
                if ids != (0..n).collect::<Vec<usize>>() {
                    return fail("Automaton::states", desc.clone(), format!("the {} states in id order", n), format!("{:?}", ids));
                }
                let fin: Vec<usize> = a.final_states().map(|s| s.id()).collect();
                let expf: Vec<usize> = (0..n).filter(|&q| a.state(q).is_final()).collect();
                if fin != expf || a.num_final_states() != expf.len() {
                    return fail("Automaton::final_states", desc.clone(), format!("{:?}", expf), format!("{:?} / num_final_states {}", fin, a.num_final_states()));
                }
                if let Err(p) = guarded(|| a.remove_unreachable_states()) {
                    return fail("Automaton::remove_unreachable_states", desc.clone(), "no panic".into(), p);
                }
                if a.num_states() != nreach {
                    return fail("Automaton::remove_unreachable_states(num_states)", desc.clone(), format!("{} reachable states", nreach), format!("{}", a.num_states()));
                }
            } else {
                // C04: minimize, on the automaton as built (unreachable states included) or after pruning
                if ctx_flip {
                    let _ = guarded(|| a.remove_unreachable_states());
                }
                let classes = nerode_classes(&a, !ctx_flip);
                if let Err(p) = guarded(|| a.minimize()) {
                    return fail("Automaton::minimize", desc.clone(), "no panic".into(), p);
                }
                if a.num_states() != classes {
                    return fail("Automaton::minimize(num_states)", desc.clone(), format!("{} (Myhill-Nerode classes)", classes), format!("{}", a.num_states()));
                }
            }
            for (i, w) in ws.iter().enumerate() {
                match accepts_ref(&a, w) {
                    Ok(g) if g == before[i] => {}
                    other => return fail(if which == "C14" { "Automaton::remove_unreachable_states(language)" } else { "Automaton::minimize(language)" }, format!("{} word={:?}", desc, w), format!("{}", before[i]), format!("{:?}", other)),
                }
            }
            let nf = (0..a.num_states()).filter(|&q| a.state(q).is_final()).count();
            if nf != a.num_final_states() || a.initial_state().id() >= a.num_states() || (0..a.num_states()).any(|q| a.state(q).id() != q) {
                return fail("Automaton(consistency after renumbering)", desc.clone(), "ids, final count and initial state consistent".into(), "inconsistent".into());
            }
            None
        });
        if r.is_some() {
            return r;
        }
    }
    None
}

// ---------------------------------------------------------------- C02 / C19 / C04 / C14
/// one expression with a large derivative closure of known size: a^[0..n] has exactly n + 2 derivatives
/// (a^[0..k] for k = n..0, then the empty language); guards against approximate seen-sets
fn large_closure_check(ctx: &mut Ctx) -> Option<Failure> {
    ctx.case(|| {
        let n: u32 = 300_000;
        watch(format!("Loop(Range(97, 97), 0, {})", n));
        let mut m = ReManager::new();
        let a = m.range(A, A);
        let e = m.smt_loop(a, 0, n);
        let count = m.iter_derivatives(e).count();
        if count != n as usize + 2 {
            return fail("ReManager::iter_derivatives(count)", format!("Loop(Range(97, 97), 0, {})", n), format!("{} derivatives", n as usize + 2), format!("{}", count));
        }
        match m.try_compile(e, n as usize + 1) {
            Some(aut) => fail("ReManager::try_compile", format!("Loop(Range(97, 97), 0, {}) bound={}", n, n + 1), "None".into(), format!("Some({} states)", aut.num_states())),
            None => None,
        }
    })
}

pub fn automata_checks(ctx: &mut Ctx, which: &str) -> Option<Failure> {
    if which == "C19" {
        let r = large_closure_check(ctx);
        if r.is_some() {
            return r;
        }
    }
    let ws = words();
    let mut asts = special_asts();
    for _ in 0..800 {
        asts.push(random_ast(ctx, 3));
    }
    let mut m = ReManager::new();
    for ast in asts {
        if ctx.out_of_time() {
            break;
        }
        let r = ctx.case(|| {
            watch(show(&ast));
            let e = build(&mut m, &ast);
            // the iterator yields &'a RE tied to the manager borrow; the terms themselves are 'static
            let derivs: Vec<RegLan> = m.iter_derivatives(e).map(|x| x as *const RE).collect::<Vec<_>>().into_iter().map(|p| unsafe { &*p }).collect();
            if derivs.len() > 300 {
                return None;
            }
            if which == "C19" {
                if derivs.is_empty() || !std::ptr::eq(derivs[0], e) {
                    return fail("ReManager::iter_derivatives(first)", show(&ast), "e first".into(), "not first".into());
                }
                for i in 0..derivs.len() {
                    for j in i + 1..derivs.len() {
                        if std::ptr::eq(derivs[i], derivs[j]) {
                            return fail("ReManager::iter_derivatives(distinct)", show(&ast), "no duplicates".into(), format!("duplicate at {} and {}", i, j));
                        }
                    }
                }
                for &d in &derivs {
                    for c in [0u32, A, A + 1, A + 2, MAXC] {
                        let x = m.char_derivative(d, c);
                        if !derivs.iter().any(|&y| std::ptr::eq(x, y)) {
                            return fail("ReManager::iter_derivatives(closed)", format!("{} char {}", show(&ast), c), "derivative is in the enumerated set".into(), "missing".into());
                        }
                    }
                }
                let n = derivs.len();
                for bound in [0usize, 1, n.saturating_sub(1), n, n + 1] {
                    let got = m.try_compile(e, bound);
                    let exp = bound >= n && bound > 0;
                    if got.is_some() != exp {
                        return fail("ReManager::try_compile", format!("{} bound={} (derivatives={})", show(&ast), bound, n), format!("is_some = {}", exp), format!("is_some = {}", got.is_some()));
                    }
                    if let Some(a) = got {
                        if a.num_states() != n {
                            return fail("ReManager::try_compile(num_states)", format!("{} bound={}", show(&ast), bound), format!("{}", n), format!("{}", a.num_states()));
                        }
                    }
                }
            }
            let mut a = match guarded(|| m.compile(e)) {
                Ok(a) => a,
                Err(p) => return fail("ReManager::compile", show(&ast), "no panic".into(), p),
            };
            if which == "C02" || which == "C19" {
                if a.num_states() != derivs.len() {
                    return fail("ReManager::compile(num_states)", show(&ast), format!("{}", derivs.len()), format!("{}", a.num_states()));
                }
            }
            if which == "C02" {
                for w in &ws {
                    let exp = matches(&ast, w);
                    match accepts_ref(&a, w) {
                        Err(p) => return fail("Automaton::accepts", format!("{} word={:?}", show(&ast), w), format!("{}", exp), p),
                        Ok(g) => {
                            if g != exp {
                                return fail("Automaton::accepts(compile)", format!("{} word={:?}", show(&ast), w), format!("{}", exp), format!("{}", g));
                            }
                        }
                    }
                }
                for q in 0..a.num_states() {
                    for c in [0u32, 1, A - 1, A, A + 1, A + 2, A + 3, MAXC - 1, MAXC] {
                        if let Err(p) = guarded(|| a.next(a.state(q), c).id()) {
                            return fail("Automaton::next(total)", format!("{} state {} char {}", show(&ast), q, c), "a successor".into(), p);
                        }
                    }
                    // char_set_next: an answer for a set is the successor of every character of the set
                    for (lo, hi) in [(A, A), (A, A + 1), (A, A + 3), (A - 1, A + 2), (0, MAXC), (A + 1, MAXC), (0, A)] {
                        if let Ok(r) = a.char_set_next(a.state(q), &CharSet::range(lo, hi)) {
                            for c in [lo, hi, (lo + hi) / 2, A, A + 1, A + 2, A + 3] {
                                if lo <= c && c <= hi && a.next(a.state(q), c).id() != r.id() {
                                    return fail("Automaton::char_set_next", format!("{} state {} set [{},{}]", show(&ast), q, lo, hi),
                                        format!("Err, or the successor of every character of the set (next on {} gives state {})", c, a.next(a.state(q), c).id()), format!("Ok(state {})", r.id()));
                                }
                            }
                        }
                    }
                }
            }
            if which == "C14" {
                // compiled successor table agrees with next
                let alpha = a.pick_alphabet();
                let table = a.compile_successors();
                for q in 0..a.num_states() {
                    for (j, &c) in alpha.iter().enumerate() {
                        let exp = a.next(a.state(q), c).id() as u32;
                        let got = table.eval(q as u32, j as u32);
                        if got != exp {
                            return fail("Automaton::compile_successors", format!("{} state {} letter#{}={}", show(&ast), q, j, c), format!("{}", exp), format!("{}", got));
                        }
                    }
                }
                // characters in the same class of the combined partition have identical successors everywhere
                let p = a.combined_char_partition();
                for c in [0u32, A - 1, A, A + 1, A + 2, A + 3, MAXC] {
                    let rep = match p.class_of_char(c) {
                        ClassId::Interval(i) => p.pick(i),
                        ClassId::Complement => p.pick_complement(),
                    };
                    for q in 0..a.num_states() {
                        if a.next(a.state(q), c).id() != a.next(a.state(q), rep).id() {
                            return fail("Automaton::combined_char_partition", format!("{} chars {} and {} state {}", show(&ast), c, rep, q), "same successor".into(), "different".into());
                        }
                    }
                }
                let nf = a.final_states().count();
                if nf != a.num_final_states() || nf != (0..a.num_states()).filter(|&q| a.state(q).is_final()).count() {
                    return fail("Automaton::final_states/num_final_states", show(&ast), "consistent".into(), format!("{} vs {}", nf, a.num_final_states()));
                }
                let before: Vec<bool> = ws.iter().map(|w| a.accepts(&sm(w))).collect();
                a.remove_unreachable_states();
                let after: Vec<bool> = ws.iter().map(|w| a.accepts(&sm(w))).collect();
                if before != after {
                    return fail("Automaton::remove_unreachable_states", show(&ast), "same language".into(), "changed".into());
                }
            }
            if which == "C04" {
                let classes = nerode_classes(&a, false);
                let before: Vec<bool> = ws.iter().map(|w| a.accepts(&sm(w))).collect();
                if let Err(p) = guarded(|| a.minimize()) {
                    return fail("Automaton::minimize", show(&ast), "no panic".into(), p);
                }
                let after: Vec<Result<bool, String>> = ws.iter().map(|w| accepts_ref(&a, w)).collect();
                for (i, w) in ws.iter().enumerate() {
                    if after[i] != Ok(before[i]) {
                        return fail("Automaton::minimize(language)", format!("{} word={:?}", show(&ast), w), format!("{}", before[i]), format!("{:?}", after[i]));
                    }
                }
                if a.num_states() != classes {
                    return fail("Automaton::minimize(num_states)", show(&ast), format!("{} (Myhill-Nerode classes)", classes), format!("{}", a.num_states()));
                }
                let nf = (0..a.num_states()).filter(|&q| a.state(q).is_final()).count();
                if nf != a.num_final_states() || a.initial_state().id() >= a.num_states() {
                    return fail("Automaton::minimize(consistency)", show(&ast), "final count and initial state consistent".into(), "inconsistent".into());
                }
            }
            None
        });
        if r.is_some() {
            return r;
        }
    }
    None
}

// ---------------------------------------------------------------- C05 / C18 / C16
pub fn c05(ctx: &mut Ctx) -> Option<Failure> {
    let ws = words();
    let mut asts = special_asts();
    for _ in 0..2000 {
        asts.push(random_ast(ctx, 3));
    }
    let mut m = ReManager::new();
    for ast in asts {
        if ctx.out_of_time() {
            break;
        }
        let r = ctx.case(|| {
            watch(show(&ast));
            let e = build(&mut m, &ast);
            let empty = m.is_empty_re(e);
            let wit = ws.iter().find(|w| matches(&ast, w));
            if empty && wit.is_some() {
                return fail("ReManager::is_empty_re", show(&ast), format!("false ({:?} is a member)", wit.unwrap()), "true".into());
            }
            match m.get_string(e) {
                None => {
                    if !empty {
                        return fail("ReManager::get_string", show(&ast), "Some (is_empty_re is false)".into(), "None".into());
                    }
                    if let Some(w) = wit {
                        return fail("ReManager::get_string", show(&ast), format!("Some (e.g. {:?})", w), "None".into());
                    }
                }
                Some(s) => {
                    if empty {
                        return fail("ReManager::is_empty_re", show(&ast), "false (get_string found a member)".into(), "true".into());
                    }
                    let w: Vec<u32> = s.iter().copied().collect();
                    if !s.is_good() || !matches(&ast, &w) || !m.str_in_re(&s, e) {
                        return fail("ReManager::get_string(member)", show(&ast), "a member of the language".into(), format!("{:?}", w));
                    }
                }
            }
            None
        });
        if r.is_some() {
            return r;
        }
    }
    None
}

pub fn c18(ctx: &mut Ctx) -> Option<Failure> {
    let ws: Vec<Vec<u32>> = words().into_iter().filter(|w| w.len() <= 3).collect();
    let mut asts = special_asts();
    for _ in 0..2000 {
        asts.push(random_ast(ctx, 3));
    }
    let mut m = ReManager::new();
    for ast in asts {
        if ctx.out_of_time() {
            break;
        }
        let r = ctx.case(|| {
            watch(show(&ast));
            let e = build(&mut m, &ast);
            for c in [0u32, A, A + 1, A + 2, A + 3, MAXC] {
                let got = m.start_char(e, c);
                let d = m.char_derivative(e, c);
                let exp = !m.is_empty_re(d);
                let sampled = ws.iter().any(|w| {
                    let mut cw = vec![c];
                    cw.extend_from_slice(w);
                    matches(&ast, &cw)
                });
                if got != exp || (sampled && !got) {
                    return fail("ReManager::start_char", format!("{} c={}", show(&ast), c), format!("{}", exp || sampled), format!("{}", got));
                }
            }
            // start_class agrees with the emptiness of the class derivative, for every valid class
            let mut cids: Vec<ClassId> = (0..e.char_ranges().count()).map(ClassId::Interval).collect();
            // the complementary class is valid exactly when the (disjoint) intervals leave a character uncovered
            let covered: u64 = e.char_ranges().map(|s| s.size() as u64).sum();
            if covered < MAXC as u64 + 1 {
                cids.push(ClassId::Complement);
            }
            for cid in cids {
                let d = match m.class_derivative(e, cid) {
                    Ok(d) => d,
                    Err(err) => return fail("ReManager::class_derivative(valid class)", format!("{} class {:?}", show(&ast), cid), "Ok(derivative)".into(), format!("Err({:?})", err)),
                };
                let exp = !m.is_empty_re(d);
                match m.start_class(e, cid) {
                    Ok(b) if b == exp => {}
                    other => return fail("ReManager::start_class", format!("{} class {:?}", show(&ast), cid), format!("Ok({})", exp), format!("{:?}", other)),
                }
            }
            if m.start_class(e, ClassId::Interval(e.num_deriv_classes())).is_ok() {
                return fail("ReManager::start_class(bad id)", show(&ast), "Err(BadClassId)".into(), "Ok".into());
            }
            None
        });
        if r.is_some() {
            return r;
        }
    }
    None
}

pub fn c16(ctx: &mut Ctx) -> Option<Failure> {
    let ws = words();
    let mut asts = special_asts();
    for a in atoms() {
        asts.push(a);
    }
    for _ in 0..60 {
        asts.push(random_ast(ctx, 2));
    }
    // concatenations mixing rigid factors (ranges) and flexible ones (Sigma*, loops, complements)
    let factors = |ctx: &mut Ctx| -> Ast {
        let a = || Box::new(Ast::Range(A, A));
        match ctx.below(12) {
            0 => Ast::Range(A, A),
            1 => Ast::Range(A + 1, A + 1),
            2 => Ast::Range(A, A + 1),
            3 => Ast::Range(A + 2, A + 2),
            4 | 5 => Ast::Full,
            6 => Ast::Plus(a()),
            7 => Ast::Star(a()),
            8 => Ast::Comp(Box::new(Ast::Eps)),
            9 => Ast::AllChars,
            10 => Ast::Opt(Box::new(Ast::Range(A + 1, A + 1))),
            _ => Ast::Comp(Box::new(Ast::Str(vec![A + 1, A]))),
        }
    };
    for _ in 0..100 {
        let n = 1 + ctx.below(4);
        let mut cur = factors(ctx);
        for _ in 1..n {
            cur = Ast::Concat(Box::new(cur), Box::new(factors(ctx)));
        }
        asts.push(cur);
    }
    let mut m = ReManager::new();
    let built: Vec<(Ast, RegLan)> = asts.iter().map(|a| (a.clone(), build(&mut m, a))).collect();
    for (ar, r) in &built {
        for (as_, s) in &built {
            if ctx.out_of_time() {
                return None;
            }
            let res = ctx.case(|| {
                if r.included_in(s) {
                    if let Some(w) = ws.iter().find(|w| matches(ar, w) && !matches(as_, w)) {
                        return fail("RE::included_in", format!("r={} s={}", show(ar), show(as_)), format!("false ({:?} is in L(r) but not in L(s))", w), "true".into());
                    }
                }
                // unions never lose strings
                let u = m.union(r, s);
                for w in &ws {
                    let exp = matches(ar, w) || matches(as_, w);
                    if m.str_in_re(&sm(w), u) != exp {
                        return fail("ReManager::union(subsumption pruning)", format!("r={} s={} word={:?}", show(ar), show(as_), w), format!("{}", exp), format!("{}", !exp));
                    }
                }
                None
            });
            if res.is_some() {
                return res;
            }
        }
    }
    None
}

// ---------------------------------------------------------------- C10
fn ref_find(ast: &Ast, s: &[u32], k: usize, allow_empty: bool) -> Option<(usize, usize)> {
    for i in k..=s.len() {
        for j in i..=s.len() {
            if (j > i || allow_empty) && matches(ast, &s[i..j]) {
                return Some((i, j));
            }
        }
    }
    None
}

pub fn c10(ctx: &mut Ctx) -> Option<Failure> {
    use aws_smt_strings::smt_regular_expressions as sre;
    let subjects: Vec<Vec<u32>> = words().into_iter().filter(|w| w.len() <= 4).collect();
    let mut asts = special_asts();
    for _ in 0..400 {
        asts.push(random_ast(ctx, 2));
    }
    let repl: Vec<Vec<u32>> = vec![vec![], vec![120], vec![A, A]];
    for ast in asts {
        if ctx.out_of_time() {
            break;
        }
        let r = ctx.case(|| {
            let e = bw(&ast);
            for s in &subjects {
                for t in &repl {
                    // str.replace_re: leftmost, shortest (possibly empty)
                    let exp = match ref_find(&ast, s, 0, true) {
                        None => s.clone(),
                        Some((i, j)) => {
                            let mut o = s[..i].to_vec();
                            o.extend_from_slice(t);
                            o.extend_from_slice(&s[j..]);
                            o
                        }
                    };
                    watch(format!("str_replace_re {} s={:?} t={:?}", show(&ast), s, t));
                    let got = sre::str_replace_re(&sm(s), e, &sm(t));
                    if got.as_ref() != &exp[..] {
                        return fail("str_replace_re", format!("{} s={:?} t={:?}", show(&ast), s, t), format!("{:?}", exp), format!("{:?}", got.as_ref()));
                    }
                    // str.replace_re_all: leftmost shortest NON-EMPTY matches, left to right
                    let mut o = Vec::new();
                    let mut k = 0;
                    while let Some((i, j)) = ref_find(&ast, s, k, false) {
                        o.extend_from_slice(&s[k..i]);
                        o.extend_from_slice(t);
                        k = j;
                    }
                    o.extend_from_slice(&s[k..]);
                    watch(format!("str_replace_re_all {} s={:?} t={:?}", show(&ast), s, t));
                    let got = sre::str_replace_re_all(&sm(s), e, &sm(t));
                    if got.as_ref() != &o[..] {
                        return fail("str_replace_re_all", format!("{} s={:?} t={:?}", show(&ast), s, t), format!("{:?}", o), format!("{:?}", got.as_ref()));
                    }
                }
            }
            None
        });
        if r.is_some() {
            return r;
        }
    }
    None
}
