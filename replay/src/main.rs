//! Replay harness: executable forms of the postconditions in /verif/contracts, evaluated on the
//! REAL crate (path dependency on /repo's current tree) over a boundary-dense enumeration of
//! inputs plus seeded random cases.  It never decides a property: it only looks for a concrete
//! failing input to attach to a violation the verifier reported (or to settle a run that the
//! verifier could not conclude because the code drifted away from the contract anchors).
//!
//! usage: replay <PROP> <seed> <budget_ms> [case_no]
//! output: one JSON line {"prop":..,"found":bool,"oracle":..,"case_no":..,"input":..,"expected":..,"got":..,"cases":N}
#![allow(clippy::all)]
use aws_smt_strings::automata::*;
use aws_smt_strings::character_sets::*;
use aws_smt_strings::loop_ranges::*;
use aws_smt_strings::smt_strings::*;
use std::panic::{catch_unwind, AssertUnwindSafe};
mod regex_oracle;
use std::time::{Duration, Instant};

pub const MAXC: u32 = 0x2FFFF;

pub struct Ctx {
    prop: String,
    seed: u64,
    pub deadline: Instant,
    only_case: Option<u64>,
    case_no: u64,
    rng: u64,
}

/// what the current case is doing: (prop, seed, case number, label, start); read by the watchdog
pub static WATCH: std::sync::Mutex<Option<(String, u64, u64, String, Instant)>> = std::sync::Mutex::new(None);

/// label the call that is about to be made (shown if it never returns)
pub fn watch(label: String) {
    if let Ok(mut g) = WATCH.lock() {
        if let Some(w) = g.as_mut() {
            w.3 = label;
            w.4 = Instant::now();
        }
    }
}

fn rss_mb() -> u64 {
    std::fs::read_to_string("/proc/self/statm").ok().and_then(|s| s.split_whitespace().nth(1).and_then(|x| x.parse::<u64>().ok())).map(|pages| pages * 4096 / (1 << 20)).unwrap_or(0)
}

/// a call that does not return within 20 s, or that allocates more than 6 GB, is reported as a failing input
fn start_watchdog() {
    std::thread::spawn(|| loop {
        std::thread::sleep(Duration::from_millis(50));
        let snap = WATCH.lock().ok().and_then(|g| g.clone());
        if let Some((prop, seed, case_no, label, start)) = snap {
            let mb = rss_mb();
            let late = start.elapsed() > Duration::from_secs(20);
            if late || mb > 6144 {
                let got = if late { "no result after 20 s".to_string() } else { format!("still running with {} MB allocated", mb) };
                println!(
                    "{{\"prop\":\"{}\",\"found\":true,\"supported\":true,\"oracle\":\"termination\",\"case_no\":{},\"seed\":{},\"input\":\"{}\",\"expected\":\"the call returns\",\"got\":\"{}\",\"cases\":{}}}",
                    esc(&prop), case_no, seed, esc(&label), esc(&got), case_no
                );
                std::process::exit(0);
            }
        }
    });
}

pub struct Failure {
    oracle: String,
    input: String,
    expected: String,
    got: String,
}

impl Ctx {
    pub fn rnd(&mut self) -> u64 {
        // xorshift64*
        let mut x = self.rng;
        x ^= x >> 12;
        x ^= x << 25;
        x ^= x >> 27;
        self.rng = x;
        x.wrapping_mul(0x2545F4914F6CDD1D)
    }
    pub fn below(&mut self, n: u64) -> u64 {
        self.rnd() % n.max(1)
    }
    pub fn out_of_time(&self) -> bool {
        Instant::now() > self.deadline
    }
    /// run one case; returns Some(failure) to stop
    pub fn case<F: FnOnce() -> Option<Failure>>(&mut self, f: F) -> Option<Failure> {
        self.case_no += 1;
        if let Some(c) = self.only_case {
            if c != self.case_no {
                return None;
            }
        }
        if let Ok(mut g) = WATCH.lock() {
            *g = Some((self.prop.clone(), self.seed, self.case_no, format!("case {}", self.case_no), Instant::now()));
        }
        // a panic of the crate on an input the property quantifies over is a failing input
        let r = match catch_unwind(AssertUnwindSafe(f)) {
            Ok(r) => r,
            Err(e) => {
                let msg = if let Some(s) = e.downcast_ref::<&str>() {
                    s.to_string()
                } else if let Some(s) = e.downcast_ref::<String>() {
                    s.clone()
                } else {
                    "panic".to_string()
                };
                let what = WATCH.lock().ok().and_then(|g| g.as_ref().map(|t| t.3.clone())).unwrap_or_default();
                fail("panic", what, "a result".into(), format!("panic: {}", msg))
            }
        };
        if let Ok(mut g) = WATCH.lock() {
            *g = None;
        }
        r
    }
}

fn esc(s: &str) -> String {
    let mut o = String::new();
    for c in s.chars() {
        match c {
            '"' => o.push_str("\\\""),
            '\\' => o.push_str("\\\\"),
            '\n' => o.push_str("\\n"),
            c if (c as u32) < 32 => o.push_str(&format!("\\u{:04x}", c as u32)),
            c => o.push(c),
        }
    }
    o
}

pub fn fail(oracle: &str, input: String, expected: String, got: String) -> Option<Failure> {
    Some(Failure { oracle: oracle.to_string(), input, expected, got })
}

pub fn guarded<T, F: FnOnce() -> T>(f: F) -> Result<T, String> {
    catch_unwind(AssertUnwindSafe(f)).map_err(|e| {
        if let Some(s) = e.downcast_ref::<&str>() {
            format!("panic: {}", s)
        } else if let Some(s) = e.downcast_ref::<String>() {
            format!("panic: {}", s)
        } else {
            "panic".to_string()
        }
    })
}

// ---------------------------------------------------------------- C20
fn points() -> Vec<u32> {
    // small values, the surrogate block (legal SMT-LIB characters that are not Rust chars) and the top of the alphabet
    vec![0, 1, 2, 5, 6, 7, 9, 10, 11, 30, 0xD7FF, 0xD800, 0xDABC, 0xDFFF, 0xE000, MAXC - 2, MAXC - 1, MAXC]
}

fn intervals(pts: &[u32]) -> Vec<(u32, u32)> {
    let mut v = Vec::new();
    for (i, &a) in pts.iter().enumerate() {
        for &b in &pts[i..] {
            v.push((a, b));
        }
    }
    v
}

fn probe_points(sets: &[(u32, u32)]) -> Vec<u32> {
    let mut v = vec![0, MAXC];
    for &(a, b) in sets {
        for x in [a, b] {
            v.push(x);
            if x > 0 {
                v.push(x - 1);
            }
            if x < MAXC {
                v.push(x + 1);
            }
        }
    }
    v.sort();
    v.dedup();
    v
}

fn has(s: (u32, u32), x: u32) -> bool {
    s.0 <= x && x <= s.1
}

fn c20(ctx: &mut Ctx) -> Option<Failure> {
    let ivs = intervals(&points());
    for &a in &ivs {
        let ca = CharSet::range(a.0, a.1);
        let r = ctx.case(|| {
            if ca.size() as u64 != (a.1 - a.0) as u64 + 1 {
                return fail("CharSet::size", format!("[{},{}]", a.0, a.1), format!("{}", a.1 - a.0 + 1), format!("{}", ca.size()));
            }
            if ca.is_singleton() != (a.0 == a.1) {
                return fail("CharSet::is_singleton", format!("[{},{}]", a.0, a.1), format!("{}", a.0 == a.1), format!("{}", ca.is_singleton()));
            }
            if ca.is_alphabet() != (a.0 == 0 && a.1 == MAXC) {
                return fail("CharSet::is_alphabet", format!("[{},{}]", a.0, a.1), format!("{}", a.0 == 0 && a.1 == MAXC), format!("{}", ca.is_alphabet()));
            }
            if !has(a, ca.pick()) {
                return fail("CharSet::pick", format!("[{},{}]", a.0, a.1), "a member".into(), format!("{}", ca.pick()));
            }
            for x in probe_points(&[a]) {
                if ca.contains(x) != has(a, x) {
                    return fail("CharSet::contains", format!("[{},{}] x={}", a.0, a.1, x), format!("{}", has(a, x)), format!("{}", ca.contains(x)));
                }
                if ca.is_before(x) != (a.1 < x) {
                    return fail("CharSet::is_before", format!("[{},{}] x={}", a.0, a.1, x), format!("{}", a.1 < x), format!("{}", ca.is_before(x)));
                }
                if ca.is_after(x) != (x < a.0) {
                    return fail("CharSet::is_after", format!("[{},{}] x={}", a.0, a.1, x), format!("{}", x < a.0), format!("{}", ca.is_after(x)));
                }
            }
            None
        });
        if r.is_some() {
            return r;
        }
        for &b in &ivs {
            let cb = CharSet::range(b.0, b.1);
            let r = ctx.case(|| {
                let inp = format!("[{},{}] [{},{}]", a.0, a.1, b.0, b.1);
                let pp = probe_points(&[a, b]);
                let sub = pp.iter().all(|&x| !has(b, x) || has(a, x));
                if ca.covers(&cb) != sub {
                    return fail("CharSet::covers", inp, format!("{}", sub), format!("{}", ca.covers(&cb)));
                }
                // inter
                let lo = a.0.max(b.0);
                let hi = a.1.min(b.1);
                let exp_inter = if lo <= hi { Some((lo, hi)) } else { None };
                let got = guarded(|| ca.inter(&cb));
                match got {
                    Err(e) => return fail("CharSet::inter", inp, format!("{:?}", exp_inter), e),
                    Ok(g) => {
                        let ok = match (g, exp_inter) {
                            (None, None) => true,
                            (Some(c), Some(e)) => c == CharSet::range(e.0, e.1),
                            _ => false,
                        };
                        if !ok {
                            return fail("CharSet::inter", inp, format!("{:?}", exp_inter), format!("{:?}", g));
                        }
                    }
                }
                // union: interval iff no gap
                let gap = (a.1 as u64 + 1 < b.0 as u64) || (b.1 as u64 + 1 < a.0 as u64);
                let exp_union = if gap { None } else { Some((a.0.min(b.0), a.1.max(b.1))) };
                let got = guarded(|| ca.union(&cb));
                match got {
                    Err(e) => return fail("CharSet::union", inp, format!("{:?}", exp_union), e),
                    Ok(g) => {
                        let ok = match (g, exp_union) {
                            (None, None) => true,
                            (Some(c), Some(e)) => c == CharSet::range(e.0, e.1),
                            _ => false,
                        };
                        if !ok {
                            return fail("CharSet::union", inp, format!("{:?}", exp_union), format!("{:?}", g));
                        }
                    }
                }
                // partial order
                let exp = if a == b {
                    Some(std::cmp::Ordering::Equal)
                } else if a.1 < b.0 {
                    Some(std::cmp::Ordering::Less)
                } else if b.1 < a.0 {
                    Some(std::cmp::Ordering::Greater)
                } else {
                    None
                };
                if ca.partial_cmp(&cb) != exp {
                    return fail("CharSet::partial_cmp", inp, format!("{:?}", exp), format!("{:?}", ca.partial_cmp(&cb)));
                }
                None
            });
            if r.is_some() {
                return r;
            }
        }
    }
    // inter_list on lists of length 0..3
    let small = intervals(&[0, 1, 5, 6, 9, 30, MAXC]);
    let mut lists: Vec<Vec<(u32, u32)>> = vec![vec![]];
    for &a in &small {
        lists.push(vec![a]);
        for &b in &small {
            lists.push(vec![a, b]);
        }
    }
    for _ in 0..3000 {
        let n = 3 + ctx.below(2) as usize;
        let l: Vec<(u32, u32)> = (0..n).map(|_| small[ctx.below(small.len() as u64) as usize]).collect();
        lists.push(l);
    }
    for l in lists {
        if ctx.out_of_time() {
            break;
        }
        let r = ctx.case(|| {
            let cs: Vec<CharSet> = l.iter().map(|&(a, b)| CharSet::range(a, b)).collect();
            let lo = l.iter().map(|x| x.0).max().unwrap_or(0);
            let hi = l.iter().map(|x| x.1).min().unwrap_or(MAXC);
            let exp = if lo <= hi { Some(CharSet::range(lo, hi)) } else { None };
            match guarded(|| CharSet::inter_list(&cs)) {
                Err(e) => fail("CharSet::inter_list", format!("{:?}", l), format!("{:?}", exp), e),
                Ok(g) => {
                    if g != exp {
                        fail("CharSet::inter_list", format!("{:?}", l), format!("{:?}", exp), format!("{:?}", g))
                    } else {
                        None
                    }
                }
            }
        });
        if r.is_some() {
            return r;
        }
    }
    None
}

// ---------------------------------------------------------------- C15
#[derive(Clone, Copy, Debug, PartialEq)]
struct R(u32, Option<u32>);
impl R {
    fn mk(self) -> LoopRange {
        match self.1 {
            Some(j) => LoopRange::finite(self.0, j),
            None => LoopRange::infinite(self.0),
        }
    }
    fn has(self, n: i64) -> bool {
        n >= self.0 as i64 && self.1.map_or(true, |j| n <= j as i64)
    }
}
const BOUND: i64 = 80;

fn ranges() -> Vec<R> {
    let mut v = Vec::new();
    for a in 0..=4u32 {
        for b in a..=5u32 {
            v.push(R(a, Some(b)));
        }
        v.push(R(a, None));
    }
    v
}

fn same_set(l: &LoopRange, f: &dyn Fn(i64) -> bool) -> Option<i64> {
    for n in 0..=BOUND {
        if l.contains(n as u32) != f(n) {
            return Some(n);
        }
    }
    None
}

fn ksum(r: R, k: i64, n: i64) -> bool {
    if k == 0 {
        return n == 0;
    }
    // k-fold sum of [a,b] = [ka, kb]
    n >= k * r.0 as i64 && r.1.map_or(true, |b| n <= k * b as i64)
}

fn c15(ctx: &mut Ctx) -> Option<Failure> {
    let rs = ranges();
    for &r in &rs {
        let lr = r.mk();
        let res = ctx.case(|| {
            let inp = format!("{:?}", r);
            for n in 0..=BOUND {
                if lr.contains(n as u32) != r.has(n) {
                    return fail("LoopRange::contains", format!("{} n={}", inp, n), format!("{}", r.has(n)), format!("{}", lr.contains(n as u32)));
                }
            }
            let sh = lr.shift();
            if let Some(n) = same_set(&sh, &|n| r.has(n + 1) || (n == 0 && r.has(0))) {
                return fail("LoopRange::shift", inp, format!("membership of {} = {}", n, r.has(n + 1) || (n == 0 && r.has(0))), format!("{}", sh.contains(n as u32)));
            }
            for k in 0..6i64 {
                let sc = lr.scale(k as u32);
                if let Some(n) = same_set(&sc, &|n| ksum(r, k, n)) {
                    return fail("LoopRange::scale", format!("{} k={}", inp, k), format!("membership of {} = {}", n, ksum(r, k, n)), format!("{}", sc.contains(n as u32)));
                }
            }
            for x in 0..4i64 {
                let ap = lr.add_point(x as u32);
                if let Some(n) = same_set(&ap, &|n| r.has(n - x)) {
                    return fail("LoopRange::add_point", format!("{} x={}", inp, x), format!("membership of {} = {}", n, r.has(n - x)), format!("{}", ap.contains(n as u32)));
                }
            }
            None
        });
        if res.is_some() {
            return res;
        }
        for &s in &rs {
            let ls = s.mk();
            let res = ctx.case(|| {
                let inp = format!("{:?} {:?}", r, s);
                let sub = (0..=BOUND).all(|n| !s.has(n) || r.has(n));
                if lr.includes(&ls) != sub {
                    return fail("LoopRange::includes", inp, format!("{}", sub), format!("{}", lr.includes(&ls)));
                }
                let sum = lr.add(&ls);
                let in_sum = |n: i64| (0..=n).any(|x| r.has(x) && s.has(n - x));
                if let Some(n) = same_set(&sum, &in_sum) {
                    return fail("LoopRange::add", inp, format!("membership of {} = {}", n, in_sum(n)), format!("{}", sum.contains(n as u32)));
                }
                let m = lr.mul(&ls);
                for x in 0..=8i64 {
                    for y in 0..=8i64 {
                        if r.has(x) && s.has(y) && !m.contains((x * y) as u32) {
                            return fail("LoopRange::mul", inp, format!("contains {}*{}", x, y), "missing".into());
                        }
                    }
                }
                // exactness: union over y in s of y-fold sums of r  ==  mul interval, compared up to BOUND
                let in_union = |n: i64| (0..=BOUND).any(|y| s.has(y) && ksum(r, y, n));
                let exact = (0..=BOUND).all(|n| m.contains(n as u32) == in_union(n));
                let got = lr.right_mul_is_exact(&ls);
                if got != exact {
                    return fail("LoopRange::right_mul_is_exact", inp, format!("{}", exact), format!("{}", got));
                }
                None
            });
            if res.is_some() {
                return res;
            }
        }
    }
    None
}

// ---------------------------------------------------------------- partitions (C11, C12)
fn small_points() -> Vec<u32> {
    vec![0, 1, 2, 4, 5, 6, 8, 9, 10, 11, 20, MAXC - 1, MAXC]
}

/// random sorted disjoint interval list over the small points
fn random_partition(ctx: &mut Ctx) -> Vec<(u32, u32)> {
    let pts = small_points();
    let mut v = Vec::new();
    let mut i = 0usize;
    while i < pts.len() {
        if ctx.below(3) == 0 {
            let mut j = i;
            while j + 1 < pts.len() && ctx.below(2) == 0 {
                j += 1;
            }
            // avoid touching the previous interval only sometimes (adjacent intervals are legal)
            v.push((pts[i], pts[j]));
            i = j + 1;
        } else {
            i += 1;
        }
    }
    v
}

fn all_small_partitions() -> Vec<Vec<(u32, u32)>> {
    // every subset of 3 "slots" over a few points + the classic examples
    let mut v: Vec<Vec<(u32, u32)>> = vec![
        vec![],
        vec![(0, MAXC)],
        vec![(0, 0)],
        vec![(MAXC, MAXC)],
        vec![(0, 127), (128, MAXC)],
        vec![(0, MAXC - 1)],
        vec![(1, MAXC)],
        vec![(10, 20), (30, 40)],
        vec![(0, 10), (11, 20)],
        vec![(0, 4), (10, 14)],
        vec![(5, 9)],
        vec![(0, 2), (4, 4)],
        vec![(0, 1), (3, 5)],
    ];
    let iv = intervals(&[0, 1, 5, 6, 9, MAXC]);
    for &a in &iv {
        v.push(vec![a]);
        for &b in &iv {
            if a.1 < b.0 {
                v.push(vec![a, b]);
            }
        }
    }
    v
}

fn build_push(l: &[(u32, u32)]) -> CharPartition {
    let mut p = CharPartition::new();
    for &(a, b) in l {
        p.push(a, b);
    }
    p
}

fn in_list(l: &[(u32, u32)], x: u32) -> Option<usize> {
    l.iter().position(|&s| has(s, x))
}

fn least_outside(l: &[(u32, u32)]) -> u32 {
    let mut w = 0u32;
    for &(a, b) in l {
        if a <= w {
            w = b + 1;
        }
    }
    w
}

fn check_partition(name: &str, l: &[(u32, u32)], p: &CharPartition) -> Option<Failure> {
    let inp = format!("{} {:?}", name, l);
    if p.len() != l.len() {
        return fail("CharPartition::len", inp, format!("{}", l.len()), format!("{}", p.len()));
    }
    for (i, &(a, b)) in l.iter().enumerate() {
        if p.get(i) != (a, b) {
            return fail("CharPartition::get", format!("{} i={}", inp, i), format!("{:?}", (a, b)), format!("{:?}", p.get(i)));
        }
        if !has((a, b), p.pick(i)) || !has((a, b), p.pick_in_class(ClassId::Interval(i))) {
            return fail("CharPartition::pick", format!("{} i={}", inp, i), "member of interval".into(), format!("{}", p.pick(i)));
        }
    }
    if p.get(l.len()) != (MAXC + 1, MAXC + 1) || p.start(l.len()) != MAXC + 1 || p.end(l.len()) != MAXC + 1 {
        return fail("CharPartition::get(out of range)", inp, "sentinel".into(), format!("{:?}", p.get(l.len())));
    }
    let w = least_outside(l);
    if p.pick_complement() != w {
        return fail("CharPartition::pick_complement", inp, format!("{}", w), format!("{}", p.pick_complement()));
    }
    if p.empty_complement() != (w > MAXC) {
        return fail("CharPartition::empty_complement", inp, format!("{}", w > MAXC), format!("{}", p.empty_complement()));
    }
    let ncl = l.len() + if w > MAXC { 0 } else { 1 };
    if p.num_classes() != ncl {
        return fail("CharPartition::num_classes", inp, format!("{}", ncl), format!("{}", p.num_classes()));
    }
    if p.valid_class_id(ClassId::Complement) != (w <= MAXC) || p.valid_class_id(ClassId::Interval(l.len())) || (l.len() > 0 && !p.valid_class_id(ClassId::Interval(l.len() - 1))) {
        return fail("CharPartition::valid_class_id", inp, "exact".into(), "wrong".into());
    }
    let ids: Vec<ClassId> = p.class_ids().collect();
    let mut exp_ids: Vec<ClassId> = (0..l.len()).map(ClassId::Interval).collect();
    if w <= MAXC {
        exp_ids.push(ClassId::Complement);
    }
    if ids != exp_ids {
        return fail("CharPartition::class_ids", inp, format!("{:?}", exp_ids), format!("{:?}", ids));
    }
    let picks: Vec<u32> = p.picks().collect();
    if picks.len() != ncl {
        return fail("CharPartition::picks", inp, format!("{} picks", ncl), format!("{:?}", picks));
    }
    for (k, &x) in picks.iter().enumerate() {
        let ok = if k < l.len() { has(l[k], x) } else { x <= MAXC && in_list(l, x).is_none() };
        if !ok {
            return fail("CharPartition::picks", format!("{} k={}", inp, k), "pick inside its class".into(), format!("{}", x));
        }
    }
    let pp = probe_points(l);
    for &x in &pp {
        let exp = match in_list(l, x) {
            Some(i) => ClassId::Interval(i),
            None => ClassId::Complement,
        };
        if p.class_of_char(x) != exp {
            return fail("CharPartition::class_of_char", format!("{} x={}", inp, x), format!("{:?}", exp), format!("{:?}", p.class_of_char(x)));
        }
    }
    // query sets over the probe points
    for (i, &a) in pp.iter().enumerate() {
        for &b in &pp[i..] {
            let q = (a, b);
            let covered = l.iter().position(|&s| s.0 <= a && b <= s.1);
            let disjoint = l.iter().all(|&s| s.1 < a || b < s.0);
            let exp = if let Some(i) = covered {
                CoverResult::CoveredBy(i)
            } else if disjoint {
                CoverResult::DisjointFromAll
            } else {
                CoverResult::Overlaps
            };
            let cs = CharSet::range(a, b);
            let got = p.interval_cover(&cs);
            if got != exp {
                return fail("CharPartition::interval_cover", format!("{} set={:?}", inp, q), format!("{:?}", exp), format!("{:?}", got));
            }
            let expc = match exp {
                CoverResult::CoveredBy(i) => Ok(ClassId::Interval(i)),
                CoverResult::DisjointFromAll => Ok(ClassId::Complement),
                CoverResult::Overlaps => Err(aws_smt_strings::errors::Error::AmbiguousCharSet),
            };
            if p.class_of_set(&cs) != expc {
                return fail("CharPartition::class_of_set", format!("{} set={:?}", inp, q), format!("{:?}", expc), format!("{:?}", p.class_of_set(&cs)));
            }
            if p.good_char_set(&cs) != (exp != CoverResult::Overlaps) {
                return fail("CharPartition::good_char_set", format!("{} set={:?}", inp, q), format!("{}", exp != CoverResult::Overlaps), format!("{}", p.good_char_set(&cs)));
            }
        }
    }
    None
}

fn c11(ctx: &mut Ctx) -> Option<Failure> {
    let mut parts = all_small_partitions();
    for _ in 0..400 {
        parts.push(random_partition(ctx));
    }
    for l in parts {
        if ctx.out_of_time() {
            break;
        }
        let r = ctx.case(|| {
            let p = build_push(&l);
            if let Some(f) = check_partition("push", &l, &p) {
                return Some(f);
            }
            if l.len() == 1 {
                let q = CharPartition::from_set(&CharSet::range(l[0].0, l[0].1));
                if let Some(f) = check_partition("from_set", &l, &q) {
                    return Some(f);
                }
            }
            // try_from_iter on a few orders
            let cs: Vec<CharSet> = l.iter().map(|&(a, b)| CharSet::range(a, b)).collect();
            let mut orders = vec![cs.clone()];
            let mut rev = cs.clone();
            rev.reverse();
            orders.push(rev);
            if cs.len() > 2 {
                let mut rot = cs.clone();
                rot.rotate_left(1);
                orders.push(rot);
            }
            for o in orders {
                match CharPartition::try_from_iter(o.iter().copied()) {
                    Err(e) => return fail("CharPartition::try_from_iter", format!("{:?}", o), "Ok".into(), format!("{:?}", e)),
                    Ok(q) => {
                        if let Some(f) = check_partition("try_from_iter", &l, &q) {
                            return Some(f);
                        }
                        if q != p {
                            return fail("CharPartition::try_from_iter", format!("{:?}", o), "equal to push-built partition".into(), format!("{:?}", q));
                        }
                    }
                }
                match CharPartition::try_from_list(&o) {
                    Ok(q) if q == p => {}
                    other => return fail("CharPartition::try_from_list", format!("{:?}", o), "equal to push-built partition".into(), format!("{:?}", other)),
                }
            }
            None
        });
        if r.is_some() {
            return r;
        }
    }
    // overlapping inputs must be rejected
    let iv = intervals(&[0, 1, 5, 6, 9, MAXC]);
    for &a in &iv {
        for &b in &iv {
            let r = ctx.case(|| {
                let overlap = !(a.1 < b.0 || b.1 < a.0);
                let got = CharPartition::try_from_list(&[CharSet::range(a.0, a.1), CharSet::range(b.0, b.1)]);
                if got.is_ok() == overlap {
                    return fail("CharPartition::try_from_list", format!("{:?} {:?}", a, b), format!("is_ok = {}", !overlap), format!("{:?}", got));
                }
                None
            });
            if r.is_some() {
                return r;
            }
        }
    }
    None
}

fn class_of(l: &[(u32, u32)], x: u32) -> i64 {
    in_list(l, x).map_or(-1, |i| i as i64)
}

fn check_merge(l1: &[(u32, u32)], l2: &[(u32, u32)], m: &CharPartition) -> Option<Failure> {
    let inp = format!("p1={:?} p2={:?}", l1, l2);
    let ml: Vec<(u32, u32)> = m.ranges().map(|c| (c.pick(), c.pick() + (c.size() - 1))).collect();
    // sorted, disjoint
    for i in 0..ml.len() {
        if ml[i].0 > ml[i].1 || (i + 1 < ml.len() && ml[i].1 >= ml[i + 1].0) {
            return fail("merge_partitions(sorted/disjoint)", inp, "sorted disjoint intervals".into(), format!("{:?}", ml));
        }
    }
    let mut all = l1.to_vec();
    all.extend_from_slice(l2);
    all.extend_from_slice(&ml);
    let pp = probe_points(&all);
    for &x in &pp {
        let inm = in_list(&ml, x).is_some();
        let exp = in_list(l1, x).is_some() || in_list(l2, x).is_some();
        if inm != exp {
            return fail("merge_partitions(complement)", format!("{} x={}", inp, x), format!("in some interval = {}", exp), format!("{:?}", ml));
        }
    }
    // refinement + maximality on consecutive probe points
    for &(a, b) in &ml {
        if class_of(l1, a) != class_of(l1, b) || class_of(l2, a) != class_of(l2, b) {
            return fail("merge_partitions(refines)", inp.clone(), format!("[{},{}] inside one class of p1 and of p2", a, b), format!("{:?}", ml));
        }
        for &x in &pp {
            if has((a, b), x) && (class_of(l1, x) != class_of(l1, a) || class_of(l2, x) != class_of(l2, a)) {
                return fail("merge_partitions(refines)", inp.clone(), format!("[{},{}] inside one class of p1 and of p2", a, b), format!("{:?}", ml));
            }
        }
        if b < MAXC && in_list(&ml, b + 1).is_some() && class_of(l1, b) == class_of(l1, b + 1) && class_of(l2, b) == class_of(l2, b + 1) {
            return fail("merge_partitions(maximal)", inp.clone(), format!("no cut after {}", b), format!("{:?}", ml));
        }
    }
    let w = least_outside(&ml);
    if m.pick_complement() != w || m.empty_complement() != (w > MAXC) {
        return fail("merge_partitions(witness)", inp, format!("{}", w), format!("{}", m.pick_complement()));
    }
    None
}

fn c12(ctx: &mut Ctx) -> Option<Failure> {
    let mut parts = all_small_partitions();
    parts.truncate(60);
    for _ in 0..60 {
        parts.push(random_partition(ctx));
    }
    for l1 in &parts {
        for l2 in &parts {
            if ctx.out_of_time() {
                return None;
            }
            let r = ctx.case(|| {
                let p1 = build_push(l1);
                let p2 = build_push(l2);
                match guarded(|| merge_partitions(&p1, &p2)) {
                    Err(e) => fail("merge_partitions", format!("p1={:?} p2={:?}", l1, l2), "no panic".into(), e),
                    Ok(m) => {
                        if let Some(f) = check_merge(l1, l2, &m) {
                            return Some(f);
                        }
                        let m2 = merge_partitions(&p2, &p1);
                        if m != m2 {
                            return fail("merge_partitions(symmetric)", format!("p1={:?} p2={:?}", l1, l2), format!("{:?}", m2), format!("{:?}", m));
                        }
                        let ml = merge_partition_list([&p1, &p2].into_iter());
                        if ml != m {
                            return fail("merge_partition_list", format!("[{:?}, {:?}]", l1, l2), format!("{:?}", m), format!("{:?}", ml));
                        }
                        let ml3 = merge_partition_list([&p2, &p1, &p2].into_iter());
                        if ml3 != m {
                            return fail("merge_partition_list(order)", format!("[{:?}, {:?}, {:?}]", l2, l1, l2), format!("{:?}", m), format!("{:?}", ml3));
                        }
                        None
                    }
                }
            });
            if r.is_some() {
                return r;
            }
        }
    }
    None
}

// ---------------------------------------------------------------- strings (C06, C09, C17)
fn strings(ctx: &mut Ctx) -> Vec<Vec<u32>> {
    let alpha = [97u32, 98];
    let mut v: Vec<Vec<u32>> = vec![vec![]];
    let mut cur: Vec<Vec<u32>> = vec![vec![]];
    for _ in 0..4 {
        let mut nxt = Vec::new();
        for s in &cur {
            for &c in &alpha {
                let mut t = s.clone();
                t.push(c);
                nxt.push(t);
            }
        }
        v.extend(nxt.iter().cloned());
        cur = nxt;
    }
    for _ in 0..40 {
        let n = 5 + ctx.below(4) as usize;
        v.push((0..n).map(|_| alpha[ctx.below(2) as usize]).collect());
    }
    v.push(vec![0, MAXC, 0xD800, 0xD801]);
    v.push(vec![0xD800]);
    v.push(vec![0xD801]);
    v.push(vec![97, 0xD800]);
    v
}

fn occurs(p: &[u32], s: &[u32], i: usize) -> bool {
    i + p.len() <= s.len() && &s[i..i + p.len()] == p
}

fn first_occ(p: &[u32], s: &[u32], k: usize) -> Option<usize> {
    (k..=s.len()).find(|&i| occurs(p, s, i))
}

fn spec_substr(s: &[u32], i: i64, n: i64) -> Vec<u32> {
    if 0 <= i && i < s.len() as i64 && n > 0 {
        let e = (i + n).min(s.len() as i64);
        s[i as usize..e as usize].to_vec()
    } else {
        vec![]
    }
}

fn spec_replace_all(s: &[u32], p: &[u32], r: &[u32]) -> Vec<u32> {
    if p.is_empty() {
        return s.to_vec();
    }
    let mut out = Vec::new();
    let mut k = 0;
    while let Some(n) = first_occ(p, s, k) {
        out.extend_from_slice(&s[k..n]);
        out.extend_from_slice(r);
        k = n + p.len();
    }
    out.extend_from_slice(&s[k..]);
    out
}

fn sm(v: &[u32]) -> SmtString {
    SmtString::from(v)
}

fn c06(ctx: &mut Ctx) -> Option<Failure> {
    let ss = strings(ctx);
    let ints: Vec<i32> = vec![i32::MIN, -2, -1, 0, 1, 2, 3, 4, 5, 6, 9, i32::MAX - 1, i32::MAX];
    let short: Vec<&Vec<u32>> = ss.iter().filter(|s| s.len() <= 3).collect();
    for s in &ss {
        if ctx.out_of_time() {
            return None;
        }
        let xs = sm(s);
        let r = ctx.case(|| {
            if str_len(&xs) as usize != s.len() {
                return fail("str_len", format!("{:?}", s), format!("{}", s.len()), format!("{}", str_len(&xs)));
            }
            for &i in &ints {
                let exp = spec_substr(s, i as i64, 1);
                let got = str_at(&xs, i);
                if got.as_ref() != &exp[..] {
                    return fail("str_at", format!("{:?} i={}", s, i), format!("{:?}", exp), format!("{:?}", got.as_ref()));
                }
                for &n in &ints {
                    let exp = spec_substr(s, i as i64, n as i64);
                    match guarded(|| str_substr(&xs, i, n)) {
                        Err(e) => return fail("str_substr", format!("{:?} i={} n={}", s, i, n), format!("{:?}", exp), e),
                        Ok(got) => {
                            if got.as_ref() != &exp[..] {
                                return fail("str_substr", format!("{:?} i={} n={}", s, i, n), format!("{:?}", exp), format!("{:?}", got.as_ref()));
                            }
                        }
                    }
                }
            }
            None
        });
        if r.is_some() {
            return r;
        }
        for p in &short {
            let xp = sm(p);
            let r = ctx.case(|| {
                let inp = format!("s={:?} p={:?}", s, p);
                let mut cat = s.clone();
                cat.extend_from_slice(p);
                if str_concat(&xs, &xp).as_ref() != &cat[..] {
                    return fail("str_concat", inp, format!("{:?}", cat), format!("{:?}", str_concat(&xs, &xp).as_ref()));
                }
                let pre = p.len() <= s.len() && &s[..p.len()] == &p[..];
                if str_prefixof(&xp, &xs) != pre {
                    return fail("str_prefixof", inp, format!("{}", pre), format!("{}", str_prefixof(&xp, &xs)));
                }
                let suf = p.len() <= s.len() && &s[s.len() - p.len()..] == &p[..];
                if str_suffixof(&xp, &xs) != suf {
                    return fail("str_suffixof", inp, format!("{}", suf), format!("{}", str_suffixof(&xp, &xs)));
                }
                let cont = first_occ(p, s, 0).is_some();
                if str_contains(&xs, &xp) != cont {
                    return fail("str_contains", inp, format!("{}", cont), format!("{}", str_contains(&xs, &xp)));
                }
                for &i in &ints {
                    let exp: i64 = if 0 <= i && (i as i64) <= s.len() as i64 { first_occ(p, s, i as usize).map_or(-1, |n| n as i64) } else { -1 };
                    let got = str_indexof(&xs, &xp, i) as i64;
                    if got != exp {
                        return fail("str_indexof", format!("{} i={}", inp, i), format!("{}", exp), format!("{}", got));
                    }
                }
                for r in &short {
                    if r.len() > 2 {
                        continue;
                    }
                    let xr = sm(r);
                    let exp = match first_occ(p, s, 0) {
                        None => s.clone(),
                        Some(n) => {
                            let mut o = s[..n].to_vec();
                            o.extend_from_slice(r);
                            o.extend_from_slice(&s[n + p.len()..]);
                            o
                        }
                    };
                    let got = str_replace(&xs, &xp, &xr);
                    if got.as_ref() != &exp[..] {
                        return fail("str_replace", format!("{} r={:?}", inp, r), format!("{:?}", exp), format!("{:?}", got.as_ref()));
                    }
                    let exp = spec_replace_all(s, p, r);
                    let got = str_replace_all(&xs, &xp, &xr);
                    if got.as_ref() != &exp[..] {
                        return fail("str_replace_all", format!("{} r={:?}", inp, r), format!("{:?}", exp), format!("{:?}", got.as_ref()));
                    }
                }
                None
            });
            if r.is_some() {
                return r;
            }
        }
    }
    None
}

fn digits(n: i64) -> Vec<u32> {
    n.to_string().chars().map(|c| c as u32).collect()
}

fn c09(ctx: &mut Ctx) -> Option<Failure> {
    let ss = strings(ctx);
    for a in &ss {
        for b in &ss {
            if ctx.out_of_time() {
                return None;
            }
            let r = ctx.case(|| {
                let lt = a < b; // Vec<u32> ordering is lexicographic
                let xa = sm(a);
                let xb = sm(b);
                if str_lt(&xa, &xb) != lt {
                    return fail("str_lt", format!("{:?} {:?}", a, b), format!("{}", lt), format!("{}", str_lt(&xa, &xb)));
                }
                if str_le(&xa, &xb) != (a <= b) {
                    return fail("str_le", format!("{:?} {:?}", a, b), format!("{}", a <= b), format!("{}", str_le(&xa, &xb)));
                }
                None
            });
            if r.is_some() {
                return r;
            }
        }
    }
    // to_int / from_int
    let mut nums: Vec<i64> = vec![0, 1, 9, 10, 99, 100, 12345, 214748364, 2147483639, 2147483640, 2147483646, 2147483647, 2147483648, 2147483649, 2147483650, 4294967296, 4294967297, 5000000000, 21474836470, 99999999999];
    for _ in 0..200 {
        nums.push(ctx.below(3_000_000_000) as i64);
    }
    for n in nums {
        for zeros in 0..2 {
            let r = ctx.case(|| {
                let mut d = digits(n);
                for _ in 0..zeros {
                    d.insert(0, 48);
                }
                let s = sm(&d);
                let got = guarded(|| str_to_int(&s));
                if n <= i32::MAX as i64 {
                    if got != Ok(n as i32) {
                        return fail("str_to_int", format!("{:?}", String::from_utf8(d.iter().map(|&x| x as u8).collect()).unwrap()), format!("{}", n), format!("{:?}", got));
                    }
                } else if let Ok(v) = got {
                    return fail("str_to_int", format!("{:?}", String::from_utf8(d.iter().map(|&x| x as u8).collect()).unwrap()), "documented panic (value does not fit)".into(), format!("{}", v));
                }
                if n <= i32::MAX as i64 && zeros == 0 {
                    let f = str_from_int(n as i32);
                    if f.as_ref() != &digits(n)[..] {
                        return fail("str_from_int", format!("{}", n), format!("{:?}", digits(n)), format!("{:?}", f.as_ref()));
                    }
                    if str_to_int(&f) != n as i32 {
                        return fail("str_to_int(str_from_int)", format!("{}", n), format!("{}", n), format!("{}", str_to_int(&f)));
                    }
                }
                None
            });
            if r.is_some() {
                return r;
            }
        }
    }
    for s in [vec![], vec![97], vec![49, 97], vec![45, 49], vec![49, 50, 32], vec![0x661]] {
        let r = ctx.case(|| {
            if str_to_int(&sm(&s)) != -1 {
                return fail("str_to_int", format!("{:?}", s), "-1".into(), format!("{}", str_to_int(&sm(&s))));
            }
            None
        });
        if r.is_some() {
            return r;
        }
    }
    for n in [-5i32, -1, i32::MIN] {
        let r = ctx.case(|| {
            if !str_from_int(n).is_empty() {
                return fail("str_from_int", format!("{}", n), "empty".into(), format!("{:?}", str_from_int(n).as_ref()));
            }
            None
        });
        if r.is_some() {
            return r;
        }
    }
    // codes
    // boundaries, surrogates, and characters that Unicode (not SMT-LIB) counts as numeric
    let codes: Vec<i32> = vec![i32::MIN, -1, 0, 1, 47, 48, 57, 58, 0xB2, 0xBD, 0x0660, 0x0663, 0x0669, 0x2160, 0xFF10, 0xFF19, 0xD7FF, 0xD800, 0xDBFF, 0xDC00, 0xDFFF, 0xE000, 0xFFFD, 0x10FFFF, 0x110000, 0x2FFFE, 0x2FFFF, 0x30000, i32::MAX];
    for x in codes {
        let r = ctx.case(|| {
            let f = str_from_code(x);
            let exp: Vec<u32> = if 0 <= x && x <= MAXC as i32 { vec![x as u32] } else { vec![] };
            if f.as_ref() != &exp[..] {
                return fail("str_from_code", format!("{}", x), format!("{:?}", exp), format!("{:?}", f.as_ref()));
            }
            if 0 <= x && x <= MAXC as i32 && str_to_code(&f) != x {
                return fail("str_to_code(str_from_code)", format!("{}", x), format!("{}", x), format!("{}", str_to_code(&f)));
            }
            if 0 <= x && x <= MAXC as i32 && str_is_digit(&f) != (48 <= x && x <= 57) {
                return fail("str_is_digit", format!("[{}]", x), format!("{}", 48 <= x && x <= 57), format!("{}", str_is_digit(&f)));
            }
            None
        });
        if r.is_some() {
            return r;
        }
    }
    for s in [vec![], vec![48, 49], vec![97, 98, 99]] {
        let r = ctx.case(|| {
            let x = sm(&s);
            if str_to_code(&x) != -1 || str_is_digit(&x) {
                return fail("str_to_code/str_is_digit", format!("{:?}", s), "-1 / false".into(), format!("{} / {}", str_to_code(&x), str_is_digit(&x)));
            }
            None
        });
        if r.is_some() {
            return r;
        }
    }
    None
}

fn clean(x: u32) -> u32 {
    if x <= MAXC {
        x
    } else {
        0xFFFD
    }
}

fn c17(ctx: &mut Ctx) -> Option<Failure> {
    let vals: Vec<u32> = vec![0, 65, 0xD800, 0xFFFD, 0x2FFFE, 0x2FFFF, 0x30000, 0x30001, 0x3FFFF, 0x40000, 0xE0001, 0x10FFFF, u32::MAX];
    let mut lists: Vec<Vec<u32>> = vec![vec![]];
    for &a in &vals {
        lists.push(vec![a]);
        for &b in &vals {
            lists.push(vec![a, b]);
            lists.push(vec![97, a, 98, b]);
        }
    }
    for _ in 0..200 {
        let n = 3 + ctx.below(5) as usize;
        lists.push((0..n).map(|_| vals[ctx.below(vals.len() as u64) as usize]).collect());
    }
    for l in lists {
        if ctx.out_of_time() {
            return None;
        }
        let r = ctx.case(|| {
            let exp: Vec<u32> = l.iter().map(|&x| clean(x)).collect();
            let a = SmtString::from(&l[..]);
            if a.as_ref() != &exp[..] || !a.is_good() {
                return fail("SmtString::from(&[u32])", format!("{:x?}", l), format!("{:x?}", exp), format!("{:x?}", a.as_ref()));
            }
            let b = SmtString::from(l.clone());
            if b.as_ref() != &exp[..] || !b.is_good() {
                return fail("SmtString::from(Vec<u32>)", format!("{:x?}", l), format!("{:x?}", exp), format!("{:x?}", b.as_ref()));
            }
            if l.len() == 1 {
                let c = SmtString::from(l[0]);
                if c.as_ref() != &exp[..] {
                    return fail("SmtString::from(u32)", format!("{:x?}", l), format!("{:x?}", exp), format!("{:x?}", c.as_ref()));
                }
            }
            if l.len() == 2 {
                let arr = [l[0], l[1]];
                let c = SmtString::from(&arr);
                if c.as_ref() != &exp[..] {
                    return fail("SmtString::from(&[u32;2])", format!("{:x?}", l), format!("{:x?}", exp), format!("{:x?}", c.as_ref()));
                }
            }
            // Rust strings / chars
            let chars: Vec<char> = l.iter().filter_map(|&x| char::from_u32(x)).collect();
            let st: String = chars.iter().collect();
            let expc: Vec<u32> = chars.iter().map(|&c| clean(c as u32)).collect();
            let d = SmtString::from(st.as_str());
            if d.as_ref() != &expc[..] || !d.is_good() {
                return fail("SmtString::from(&str)", format!("{:?}", st), format!("{:x?}", expc), format!("{:x?}", d.as_ref()));
            }
            let e = SmtString::from(st.clone());
            if e.as_ref() != &expc[..] {
                return fail("SmtString::from(String)", format!("{:?}", st), format!("{:x?}", expc), format!("{:x?}", e.as_ref()));
            }
            for &c in &chars {
                let f = SmtString::from(c);
                if f.as_ref() != &[clean(c as u32)][..] {
                    return fail("SmtString::from(char)", format!("{:?}", c), format!("{:x?}", clean(c as u32)), format!("{:x?}", f.as_ref()));
                }
            }
            let p = parse_smt_literal(&st);
            if !p.is_good() {
                return fail("parse_smt_literal(is_good)", format!("{:?}", st), "only SMT-LIB characters".into(), format!("{:x?}", p.as_ref()));
            }
            None
        });
        if r.is_some() {
            return r;
        }
    }
    // out-of-range escapes never yield a bad string
    for v in [0x2FFFFu32, 0x30000, 0x30001, 0x3000f, 0x30010, 0x3ffff, 0x40000, 0xfffff] {
        let r = ctx.case(|| {
            let t = format!("\\u{{{:x}}}", v);
            let p = parse_smt_literal(&t);
            if !p.is_good() {
                return fail("parse_smt_literal(is_good)", format!("{:?}", t), "only SMT-LIB characters".into(), format!("{:x?}", p.as_ref()));
            }
            None
        });
        if r.is_some() {
            return r;
        }
    }
    None
}

// ---------------------------------------------------------------- C08
fn is_hex(c: char) -> bool {
    c.is_ascii_hexdigit()
}

/// grammar-level reference: SMT-LIB 2.6 escapes
fn ref_parse(t: &[char]) -> Vec<u32> {
    let mut out = Vec::new();
    let mut i = 0;
    let n = t.len();
    while i < n {
        if t[i] == '\\' && i + 1 < n && t[i + 1] == 'u' {
            if i + 6 <= n && t[i + 2..i + 6].iter().all(|&c| is_hex(c)) {
                let v = u32::from_str_radix(&t[i + 2..i + 6].iter().collect::<String>(), 16).unwrap();
                out.push(v);
                i += 6;
                continue;
            }
            if i + 2 < n && t[i + 2] == '{' {
                let mut k = 0;
                while i + 3 + k < n && is_hex(t[i + 3 + k]) && k < 6 {
                    k += 1;
                }
                if (1..=5).contains(&k) && i + 3 + k < n && t[i + 3 + k] == '}' {
                    let v = u32::from_str_radix(&t[i + 3..i + 3 + k].iter().collect::<String>(), 16).unwrap();
                    if v <= MAXC {
                        out.push(v);
                        i += 4 + k;
                        continue;
                    }
                }
            }
        }
        out.push(clean(t[i] as u32));
        i += 1;
    }
    out
}

fn undouble(body: &str) -> Option<String> {
    let cs: Vec<char> = body.chars().collect();
    let mut o = String::new();
    let mut i = 0;
    while i < cs.len() {
        if cs[i] == '"' {
            if i + 1 < cs.len() && cs[i + 1] == '"' {
                o.push('"');
                i += 2;
            } else {
                return None;
            }
        } else {
            o.push(cs[i]);
            i += 1;
        }
    }
    Some(o)
}

fn c08(ctx: &mut Ctx) -> Option<Failure> {
    // parser: all texts over a small alphabet up to length 6, then random longer ones
    let alpha: Vec<char> = vec!['\\', 'u', '{', '}', '0', '2', 'a', 'F', 'g'];
    let mut idx: Vec<usize> = vec![];
    let check_text = |t: &Vec<char>| -> Option<Failure> {
        let s: String = t.iter().collect();
        let exp = ref_parse(t);
        match guarded(|| parse_smt_literal(&s)) {
            Err(e) => fail("parse_smt_literal", format!("{:?}", s), format!("{:x?}", exp), e),
            Ok(g) => {
                if g.as_ref() != &exp[..] {
                    fail("parse_smt_literal", format!("{:?}", s), format!("{:x?}", exp), format!("{:x?}", g.as_ref()))
                } else {
                    None
                }
            }
        }
    };
    // targeted
    let mut targeted: Vec<String> = vec![];
    for k in 0..8 {
        for d in ["0", "2", "f", "3"] {
            let hex: String = std::iter::repeat(d).take(k).collect();
            targeted.push(format!("\\u{{{}}}", hex));
            targeted.push(format!("\\u{{{}}}x", hex));
            targeted.push(format!("\\u{{{}", hex));
            targeted.push(format!("\\u{}", hex));
            targeted.push(format!("\\u{}z", hex));
            targeted.push(format!("\\u2CA\\u{{{}}}", hex));
            targeted.push(format!("\\u{{3ffff}}\\u{{{}}}", hex));
        }
    }
    for v in [0x2FFFFu32, 0x30000, 0x3000f, 0x30010, 0x41, 0x000041, 0x02ffff] {
        targeted.push(format!("\\u{{{:x}}}", v));
        targeted.push(format!("\\u{{{:06x}}}", v));
        targeted.push(format!("\\u{{{:05x}}}", v));
    }
    for t in targeted {
        let r = ctx.case(|| check_text(&t.chars().collect()));
        if r.is_some() {
            return r;
        }
    }
    for len in 0..=6usize {
        idx.clear();
        idx.resize(len, 0);
        loop {
            if ctx.out_of_time() {
                break;
            }
            let t: Vec<char> = idx.iter().map(|&i| alpha[i]).collect();
            let r = ctx.case(|| check_text(&t));
            if r.is_some() {
                return r;
            }
            // next
            let mut p = len;
            loop {
                if p == 0 {
                    break;
                }
                p -= 1;
                idx[p] += 1;
                if idx[p] < alpha.len() {
                    break;
                }
                idx[p] = 0;
                if p == 0 {
                    p = usize::MAX;
                    break;
                }
            }
            if len == 0 || p == usize::MAX {
                break;
            }
        }
    }
    for _ in 0..20000 {
        if ctx.out_of_time() {
            break;
        }
        let n = 7 + ctx.below(8) as usize;
        let t: Vec<char> = (0..n).map(|_| alpha[ctx.below(alpha.len() as u64) as usize]).collect();
        let r = ctx.case(|| check_text(&t));
        if r.is_some() {
            return r;
        }
    }
    // printer: round trip
    let cps: Vec<u32> = vec![0, 0x1f, 0x20, 0x22, 0x41, 0x5c, 0x75, 0x7b, 0x7d, 0x34, 0x31, 0x7e, 0x7f, 0x80, 0xff, 0x100, 0xfff, 0x1000, 0xffff, 0x10000, 0x10001, 0x2ffff, 0xD800];
    let mut strs: Vec<Vec<u32>> = vec![vec![], vec![0x5c, 0x75, 0x7b, 0x34, 0x31, 0x7d], vec![0x5c, 0x75, 0x30, 0x30, 0x34, 0x31], vec![0x1000, 0x30]];
    for &a in &cps {
        strs.push(vec![a]);
        for &b in &cps {
            strs.push(vec![a, b]);
        }
    }
    for _ in 0..2000 {
        let n = 3 + ctx.below(5) as usize;
        strs.push((0..n).map(|_| cps[ctx.below(cps.len() as u64) as usize]).collect());
    }
    for s in strs {
        if ctx.out_of_time() {
            break;
        }
        let r = ctx.case(|| {
            let x = sm(&s);
            let printed = x.to_string();
            if !printed.chars().all(|c| (c as u32) >= 32 && (c as u32) < 127) {
                return fail("SmtString::fmt(printable ASCII)", format!("{:x?}", s), "printable ASCII".into(), format!("{:?}", printed));
            }
            let pc: Vec<char> = printed.chars().collect();
            if pc.len() < 2 || pc[0] != '"' || pc[pc.len() - 1] != '"' {
                return fail("SmtString::fmt(quotes)", format!("{:x?}", s), "quoted".into(), format!("{:?}", printed));
            }
            let body: String = pc[1..pc.len() - 1].iter().collect();
            match undouble(&body) {
                None => fail("SmtString::fmt(quote doubling)", format!("{:x?}", s), "every quote doubled".into(), format!("{:?}", printed)),
                Some(u) => {
                    let back = parse_smt_literal(&u);
                    if back.as_ref() != &s[..] {
                        return fail("SmtString::fmt(round trip)", format!("{:x?}", s), format!("{:x?}", s), format!("{:?} parses to {:x?}", printed, back.as_ref()));
                    }
                    // the per-character printers agree with Display
                    let mut by_char = String::from("\"");
                    let mut by_char2 = String::from("\"");
                    for &c in &s {
                        by_char.push_str(&char_to_smt(c));
                        by_char2.push_str(&smt_char_as_string(c));
                    }
                    by_char.push('"');
                    by_char2.push('"');
                    if by_char != printed || by_char2 != printed {
                        return fail("char_to_smt/smt_char_as_string", format!("{:x?}", s), format!("{:?}", printed), format!("{:?} / {:?}", by_char, by_char2));
                    }
                    None
                }
            }
        });
        if r.is_some() {
            return r;
        }
    }
    None
}

// ---------------------------------------------------------------- C13
#[derive(Clone, Debug)]
struct SpecState {
    trans: Vec<((u32, u32), u32)>,
    default: Option<u32>,
    fin: bool,
}

fn c13(ctx: &mut Ctx) -> Option<Failure> {
    // call orders: a state may be marked final / given a default before any transition mentions it
    let r0 = ctx.case(|| {
        let mut b = AutomatonBuilder::new(&10u32);
        b.mark_final(&11u32);
        b.set_default_successor(&12u32, &12u32);
        b.add_transition(&10u32, &CharSet::singleton(97), &11u32);
        b.add_transition(&11u32, &CharSet::singleton(97), &10u32);
        b.set_default_successor(&10u32, &12u32);
        b.set_default_successor(&11u32, &12u32);
        match b.build() {
            Err(e) => fail("AutomatonBuilder::build(call order)", "new(10); mark_final(11); default(12,12); 10-a->11; 11-a->10; defaults to 12".into(), "Ok".into(), format!("{:?}", e)),
            Ok(a) => {
                let acc = |w: &[u32]| a.accepts(&SmtString::from(w));
                if a.num_states() != 3 || a.num_final_states() != 1 || acc(&[]) || !acc(&[97]) || acc(&[97, 97]) || !acc(&[97, 97, 97]) || acc(&[98]) {
                    fail("AutomatonBuilder::mark_final(call order)", "new(10); mark_final(11); default(12,12); 10-a->11; 11-a->10; defaults to 12".into(),
                         "3 states, 1 final, accepts exactly a^(odd)".into(), format!("{} states, {} final, a accepted: {}", a.num_states(), a.num_final_states(), acc(&[97])))
                } else {
                    None
                }
            }
        }
    });
    if r0.is_some() {
        return r0;
    }
    let labels: Vec<(u32, u32)> = vec![(0, 9), (10, 19), (20, MAXC), (0, MAXC), (5, 14), (97, 97), (98, 98), (97, 99), (0, 96), (100, MAXC), (98, 100)];
    for round in 0..6000 {
        if ctx.out_of_time() {
            return None;
        }
        let nstates = 1 + ctx.below(3) as u32;
        let mut spec: Vec<SpecState> = Vec::new();
        for _ in 0..nstates {
            let nt = ctx.below(4) as usize;
            let mut trans = Vec::new();
            for _ in 0..nt {
                let l = labels[ctx.below(labels.len() as u64) as usize];
                trans.push((l, ctx.below(nstates as u64) as u32));
            }
            let default = if ctx.below(2) == 0 { Some(ctx.below(nstates as u64) as u32) } else { None };
            spec.push(SpecState { trans, default, fin: ctx.below(2) == 0 });
        }
        // a few hand-made shapes first
        if round == 0 {
            spec = vec![SpecState { trans: vec![((97, 97), 1)], default: None, fin: false }, SpecState { trans: vec![], default: Some(1), fin: true }];
        }
        if round == 1 {
            spec = vec![SpecState { trans: vec![((97, 99), 1), ((98, 100), 0)], default: Some(1), fin: false }, SpecState { trans: vec![], default: Some(1), fin: true }];
        }
        // the complementary class is exactly {MAX_CHAR}: without a default (incomplete), and with one (needed)
        if round == 2 {
            spec = vec![SpecState { trans: vec![((0, MAXC - 1), 0)], default: None, fin: true }];
        }
        if round == 3 {
            spec = vec![SpecState { trans: vec![((0, MAXC - 1), 0)], default: Some(1), fin: false }, SpecState { trans: vec![], default: Some(1), fin: true }];
        }
        if round == 4 {
            spec = vec![SpecState { trans: vec![((1, MAXC), 0)], default: Some(1), fin: false }, SpecState { trans: vec![((0, 0), 0), ((1, MAXC - 1), 1)], default: None, fin: true }];
        }
        let r = ctx.case(|| {
            let mut b = AutomatonBuilder::new(&0u32);
            for q in 1..spec.len() as u32 {
                // make ids dense and equal to the names
                b.add_transition(&q, &CharSet::singleton(0), &q);
            }
            // (the dummy self-loops above are part of the specification we compare against)
            let mut full: Vec<SpecState> = spec.clone();
            for q in 1..spec.len() {
                full[q].trans.insert(0, ((0, 0), q as u32));
            }
            for (q, s) in spec.iter().enumerate() {
                for &(l, t) in &s.trans {
                    b.add_transition(&(q as u32), &CharSet::range(l.0, l.1), &t);
                }
                if let Some(d) = s.default {
                    b.set_default_successor(&(q as u32), &d);
                }
                if s.fin {
                    b.mark_final(&(q as u32));
                }
            }
            let inp = format!("{:?}", full);
            // oracle
            let mut all: Vec<(u32, u32)> = Vec::new();
            for s in &full {
                for &(l, _) in &s.trans {
                    all.push(l);
                }
            }
            let pp = probe_points(&all);
            let delta = |s: &SpecState, c: u32| -> Vec<u32> {
                let mut v: Vec<u32> = s.trans.iter().filter(|(l, _)| has(*l, c)).map(|&(_, t)| t).collect();
                v.sort();
                v.dedup();
                if v.is_empty() {
                    if let Some(d) = s.default {
                        v.push(d);
                    }
                }
                v
            };
            let conflict_or_incomplete = full.iter().any(|s| pp.iter().any(|&c| delta(s, c).len() != 1));
            let disjoint_labels = full.iter().all(|s| {
                s.trans.iter().enumerate().all(|(i, (a, _))| s.trans.iter().skip(i + 1).all(|(b, _)| a.1 < b.0 || b.1 < a.0))
            });
            let default_needed_ok = full.iter().all(|s| s.default.is_none() || pp.iter().any(|&c| !s.trans.iter().any(|(l, _)| has(*l, c))));
            match guarded(|| b.build()) {
                Err(e) => fail("AutomatonBuilder::build", inp, "no panic".into(), e),
                Ok(Err(e)) => {
                    if !conflict_or_incomplete && disjoint_labels && default_needed_ok {
                        fail("AutomatonBuilder::build", inp, "Ok (complete, conflict-free, defaults only where needed)".into(), format!("Err({:?})", e))
                    } else {
                        None
                    }
                }
                Ok(Ok(a)) => {
                    if conflict_or_incomplete {
                        return fail("AutomatonBuilder::build", inp, "Err (conflicting or incomplete specification)".into(), "Ok".into());
                    }
                    if a.num_states() != full.len() || a.initial_state().id() != 0 {
                        return fail("AutomatonBuilder::build(shape)", inp, format!("{} states, initial 0", full.len()), format!("{} states, initial {}", a.num_states(), a.initial_state().id()));
                    }
                    let nf = full.iter().filter(|s| s.fin).count();
                    if a.num_final_states() != nf {
                        return fail("AutomatonBuilder::build(finals)", inp, format!("{}", nf), format!("{}", a.num_final_states()));
                    }
                    for (q, s) in full.iter().enumerate() {
                        let st = a.state(q);
                        if st.is_final() != s.fin {
                            return fail("AutomatonBuilder::build(finals)", format!("{} state {}", inp, q), format!("{}", s.fin), format!("{}", st.is_final()));
                        }
                        for &c in &pp {
                            let exp = delta(s, c)[0] as usize;
                            match guarded(|| a.next(st, c).id()) {
                                Err(e) => return fail("Automaton::next", format!("{} state {} char {}", inp, q, c), format!("{}", exp), e),
                                Ok(g) => {
                                    if g != exp {
                                        return fail("AutomatonBuilder::build(delta)", format!("{} state {} char {}", inp, q, c), format!("{}", exp), format!("{}", g));
                                    }
                                }
                            }
                        }
                    }
                    None
                }
            }
        });
        if r.is_some() {
            return r;
        }
    }
    None
}

fn main() {
    let args: Vec<String> = std::env::args().collect();
    if args.len() < 4 {
        eprintln!("usage: replay <PROP> <seed> <budget_ms> [case_no]");
        std::process::exit(2);
    }
    let prop = args[1].clone();
    let seed: u64 = args[2].parse().unwrap_or(0);
    let budget: u64 = args[3].parse().unwrap_or(10000);
    let only_case = args.get(4).and_then(|s| s.parse::<u64>().ok());
    if std::env::var_os("VERIF_REPLAY_VERBOSE").is_none() {
        std::panic::set_hook(Box::new(|_| {}));
    }
    start_watchdog();
    let mut ctx = Ctx {
        prop: prop.clone(),
        seed,
        deadline: Instant::now() + Duration::from_millis(budget),
        only_case,
        case_no: 0,
        rng: seed.wrapping_mul(0x9E3779B97F4A7C15) ^ 0xD1B54A32D192ED03,
    };
    let res = match prop.as_str() {
        "C20" => c20(&mut ctx),
        "C15" => c15(&mut ctx),
        "C11" => c11(&mut ctx),
        "C12" => c12(&mut ctx),
        "C06" => c06(&mut ctx),
        "C09" => c09(&mut ctx),
        "C17" => c17(&mut ctx),
        "C08" => c08(&mut ctx),
        "C13" => c13(&mut ctx),
        "C01" | "C07" => regex_oracle::c01(&mut ctx),
        "C03" => regex_oracle::c03(&mut ctx),
        "C02" | "C19" => regex_oracle::automata_checks(&mut ctx, &prop),
        "C04" | "C14" => {
            // half of the budget on automata assembled with the builder (unreachable parts), half on compiled ones
            let full = ctx.deadline;
            ctx.deadline = Instant::now() + (full - Instant::now()) / 2;
            let r = regex_oracle::builder_automata_checks(&mut ctx, &prop);
            ctx.deadline = full;
            if r.is_some() { r } else { regex_oracle::automata_checks(&mut ctx, &prop) }
        }
        "C05" => regex_oracle::c05(&mut ctx),
        "C18" => regex_oracle::c18(&mut ctx),
        "C16" => regex_oracle::c16(&mut ctx),
        "C10" => regex_oracle::c10(&mut ctx),
        _ => {
            println!("{{\"prop\":\"{}\",\"found\":false,\"supported\":false,\"cases\":0}}", esc(&prop));
            return;
        }
    };
    match res {
        Some(f) => println!(
            "{{\"prop\":\"{}\",\"found\":true,\"supported\":true,\"oracle\":\"{}\",\"case_no\":{},\"seed\":{},\"input\":\"{}\",\"expected\":\"{}\",\"got\":\"{}\",\"cases\":{}}}",
            esc(&ctx.prop), esc(&f.oracle), ctx.case_no, ctx.seed, esc(&f.input), esc(&f.expected), esc(&f.got), ctx.case_no
        ),
        None => println!("{{\"prop\":\"{}\",\"found\":false,\"supported\":true,\"seed\":{},\"cases\":{}}}", esc(&ctx.prop), ctx.seed, ctx.case_no),
    }
}
