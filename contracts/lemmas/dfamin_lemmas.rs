// ---- letters of the compiled table versus real characters ----

// every character has a column in the table
pub proof fn lemma_char_column(cp: CharPartition, c: int) -> (j: int)
    requires cp_wf(cp), 0 <= c <= MAX_CHAR,
    ensures in_class_no(cp, c, j), 0 <= j < cp.list@.len() + (if cp_valid(cp, ClassId::Complement) { 1int } else { 0int }),
{
    if cl_in(cp.list@, c) {
        choose|i: int| 0 <= i < cp.list@.len() && cs_has(#[trigger] cp.list@[i], c)
    } else {
        assert(cp_valid(cp, ClassId::Complement));
        cp.list@.len() as int
    }
}

// the character that stands for column j: the first character of the j-th interval, or some character outside all intervals
pub open spec fn col_char(cp: CharPartition, j: int) -> int {
    if j < cp.list@.len() { cp.list@[j].start as int } else { choose|x: int| 0 <= x <= MAX_CHAR && !cl_in(cp.list@, x) }
}

// every column stands for some character
pub proof fn lemma_column_char(cp: CharPartition, j: int)
    requires cp_wf(cp), 0 <= j < cp.list@.len() + (if cp_valid(cp, ClassId::Complement) { 1int } else { 0int }),
    ensures in_class_no(cp, col_char(cp, j), j), 0 <= col_char(cp, j) <= MAX_CHAR,
{
    if j < cp.list@.len() {
        assert(cs_wf(cp.list@[j]));
    }
}

pub proof fn lemma_abs_aut_ok(aa: MzAut, a: Automaton, t: CompactTable, cp: CharPartition)
    requires dfa_wf(a), table_of(t, a, cp), a.states@.len() < u32::MAX - 1, abs_agrees(aa, a, t), 1 <= a.states@.len(),
    ensures aut_ok(aa),
{
    assert forall|x: u32, j: u32| x < aa.n && j < aa.m implies #[trigger] (aa.d)(x, j) < aa.n by {
        lemma_column_char(cp, j as int);
        let c = col_char(cp, j as int);
        assert(ct_fn(t, x as int, j as int) == delta(a, x as int, c));
        lemma_delta_total(a.states@[x as int], a.states@.len() as int, c);
    }
}

// a congruence of the abstract automaton is a congruence of the real one
pub proof fn lemma_real_cong(aa: MzAut, a: Automaton, t: CompactTable, cp: CharPartition, p: Partition)
    requires dfa_wf(a), table_of(t, a, cp), a.states@.len() < u32::MAX - 1, abs_agrees(aa, a, t),
        refines_fin(aa, p), congruence(aa, p), p.base.size == a.states@.len(),
    ensures real_cong(a, p),
{
    assert forall|x: u32, y: u32| x < a.states@.len() && y < a.states@.len() && #[trigger] same_blk(p, x, y) implies a.states@[x as int].is_final == a.states@[y as int].is_final by {
        assert((aa.fin)(x) == (aa.fin)(y));
    }
    assert forall|x: u32, y: u32, c: u32| #![trigger same_blk(p, x, y), delta(a, x as int, c as int)] x < a.states@.len() && y < a.states@.len() && c <= MAX_CHAR && same_blk(p, x, y)
        implies same_blk(p, delta(a, x as int, c as int) as u32, delta(a, y as int, c as int) as u32) by {
        let j = lemma_char_column(cp, c as int);
        assert(ct_fn(t, x as int, j) == delta(a, x as int, c as int));
        assert(ct_fn(t, y as int, j) == delta(a, y as int, c as int));
        assert(step_same(aa, p, x, y, j as u32));
        assert((aa.d)(x, j as u32) == ct_fn(t, x as int, j));
        lemma_delta_total(a.states@[x as int], a.states@.len() as int, c as int);
        lemma_delta_total(a.states@[y as int], a.states@.len() as int, c as int);
    }
}

// states of one block of a real congruence are equivalent
pub proof fn lemma_cong_run(a: Automaton, p: Partition, x: u32, y: u32, w: Seq<u32>)
    requires dfa_wf(a), real_cong(a, p), x < a.states@.len(), y < a.states@.len(), same_blk(p, x, y), ss_good(w), a.states@.len() < u32::MAX,
    ensures accepts_from(a, x as int, w) == accepts_from(a, y as int, w),
        0 <= run(a, x as int, w) < a.states@.len(), 0 <= run(a, y as int, w) < a.states@.len(),
        same_blk(p, run(a, x as int, w) as u32, run(a, y as int, w) as u32),
    decreases w.len(),
{
    if w.len() > 0 {
        let c = w[0];
        let w1 = w.subrange(1, w.len() as int);
        assert forall|i: int| 0 <= i < w1.len() implies #[trigger] w1[i] <= MAX_CHAR by { assert(w1[i] == w[i + 1]); }
        lemma_delta_total(a.states@[x as int], a.states@.len() as int, c as int);
        lemma_delta_total(a.states@[y as int], a.states@.len() as int, c as int);
        assert(same_blk(p, delta(a, x as int, c as int) as u32, delta(a, y as int, c as int) as u32));
        lemma_cong_run(a, p, delta(a, x as int, c as int) as u32, delta(a, y as int, c as int) as u32, w1);
    }
}

// equivalent states of the real automaton are equivalent in the abstract one
pub proof fn lemma_equiv_abs(aa: MzAut, a: Automaton, t: CompactTable, cp: CharPartition, x: u32, y: u32)
    requires dfa_wf(a), table_of(t, a, cp), a.states@.len() < u32::MAX - 1, abs_agrees(aa, a, t), x < a.states@.len(), y < a.states@.len(), st_equiv(a, x as int, y as int),
    ensures nerode(aa, x, y),
{
    assert forall|w: Seq<u32>| mz_word(aa, w) implies #[trigger] mz_acc(aa, x, w) == mz_acc(aa, y, w) by {
        lemma_abs_same_word(aa, a, t, cp, x, y, w);
    }
}

// the same real word serves for both states (columns were turned into characters independently of the state)
pub proof fn lemma_abs_same_word(aa: MzAut, a: Automaton, t: CompactTable, cp: CharPartition, x: u32, y: u32, w: Seq<u32>)
    requires dfa_wf(a), table_of(t, a, cp), a.states@.len() < u32::MAX - 1, abs_agrees(aa, a, t), x < a.states@.len(), y < a.states@.len(), st_equiv(a, x as int, y as int), mz_word(aa, w),
    ensures mz_acc(aa, x, w) == mz_acc(aa, y, w),
{
    let rw = real_word(cp, w);
    lemma_real_word(aa, a, t, cp, x, w);
    lemma_real_word(aa, a, t, cp, y, w);
    assert((aa.fin)(mz_run(aa, x, w)) == a.states@[mz_run(aa, x, w) as int].is_final);
    assert((aa.fin)(mz_run(aa, y, w)) == a.states@[mz_run(aa, y, w) as int].is_final);
    assert(accepts_from(a, x as int, rw) == accepts_from(a, y as int, rw));
}

// one character per column, chosen from the partition only
pub open spec fn real_word(cp: CharPartition, w: Seq<u32>) -> Seq<u32>
    decreases w.len(),
{
    if w.len() == 0 { Seq::<u32>::empty() } else { seq![col_char(cp, w[0] as int) as u32] + real_word(cp, w.drop_first()) }
}

pub proof fn lemma_real_word(aa: MzAut, a: Automaton, t: CompactTable, cp: CharPartition, x: u32, w: Seq<u32>)
    requires dfa_wf(a), table_of(t, a, cp), a.states@.len() < u32::MAX - 1, abs_agrees(aa, a, t), x < a.states@.len(), mz_word(aa, w),
    ensures ss_good(real_word(cp, w)), run(a, x as int, real_word(cp, w)) == mz_run(aa, x, w) as int, 0 <= run(a, x as int, real_word(cp, w)) < a.states@.len(),
    decreases w.len(),
{
    if w.len() > 0 {
        let j = w[0];
        let c = col_char(cp, j as int);
        lemma_column_char(cp, j as int);
        assert(ct_fn(t, x as int, j as int) == delta(a, x as int, c));
        lemma_delta_total(a.states@[x as int], a.states@.len() as int, c);
        let x1 = (aa.d)(x, j);
        assert(mz_word(aa, w.drop_first())) by { assert forall|i: int| 0 <= i < w.drop_first().len() implies #[trigger] w.drop_first()[i] < aa.m by { assert(w.drop_first()[i] == w[i + 1]); } }
        lemma_real_word(aa, a, t, cp, x1, w.drop_first());
        let r1 = real_word(cp, w.drop_first());
        lemma_run_cons(a, x as int, c as u32, r1);
        lemma_good_cons(c as u32, r1);
    }
}

// the blocks of the partition refine() returns are exactly the equivalence classes of the real automaton
pub proof fn lemma_blocks_are_classes(aa: MzAut, a: Automaton, t: CompactTable, cp: CharPartition, p: Partition)
    requires dfa_wf(a), table_of(t, a, cp), a.states@.len() < u32::MAX - 1, abs_agrees(aa, a, t), is_nerode_partition(aa, p),
    ensures real_cong(a, p),
        forall|x: u32, y: u32| x < a.states@.len() && y < a.states@.len() ==> #[trigger] same_blk(p, x, y) == st_equiv(a, x as int, y as int),
{
    lemma_real_cong(aa, a, t, cp, p);
    assert forall|x: u32, y: u32| x < a.states@.len() && y < a.states@.len() implies #[trigger] same_blk(p, x, y) == st_equiv(a, x as int, y as int) by {
        if same_blk(p, x, y) {
            assert forall|w: Seq<u32>| ss_good(w) implies #[trigger] accepts_from(a, x as int, w) == accepts_from(a, y as int, w) by { lemma_cong_run(a, p, x, y, w); }
        }
        if st_equiv(a, x as int, y as int) {
            lemma_equiv_abs(aa, a, t, cp, x, y);
            assert(nerode(aa, x, y));
        }
    }
}

// runs of the renumbered automaton follow the runs of the original one
pub proof fn lemma_quot_run(a1: Automaton, a2: Automaton, r: StateMapping, p: Partition, x: int, w: Seq<u32>)
    requires dfa_wf(a1), dfa_wf(a2), aut_remapped(a2, a1, r), pt_wf(p), p.base.size == a1.states@.len(), a1.states@.len() < u32::MAX - 1,
        map_of_partition(r, p), real_cong(a1, p), 0 <= x < a1.states@.len(), ss_good(w),
    ensures run(a2, r.new_id@[x] as int, w) == r.new_id@[run(a1, x, w)], 0 <= run(a1, x, w) < a1.states@.len(),
        accepts_from(a2, r.new_id@[x] as int, w) == accepts_from(a1, x, w),
    decreases w.len(),
{
    let j = r.new_id@[x] as int;
    let rep = r.old_id@[j] as int;
    assert(r.new_id@[x as int] == pt_bid(p, x as u32) - 1);
    assert(pt_bid(p, r.old_id@[(j + 1) - 1] as u32) == j + 1);
    assert(same_blk(p, x as u32, rep as u32));
    assert(kept(r, rep));
    if w.len() == 0 {
        assert(st_remapped(a2.states@[j], a1.states@[rep], r));
    } else {
        let c = w[0];
        let w1 = w.subrange(1, w.len() as int);
        assert forall|i: int| 0 <= i < w1.len() implies #[trigger] w1[i] <= MAX_CHAR by { assert(w1[i] == w[i + 1]); }
        lemma_remap_delta(a1, a2, r, rep, c);
        lemma_delta_total(a1.states@[x], a1.states@.len() as int, c as int);
        let dx = delta(a1, x, c as int);
        let dr = delta(a1, rep, c as int);
        assert(same_blk(p, delta(a1, (x as u32) as int, c as int) as u32, delta(a1, (rep as u32) as int, c as int) as u32));
        assert(r.new_id@[dx] == pt_bid(p, dx as u32) - 1);
        assert(r.new_id@[dr] == pt_bid(p, dr as u32) - 1);
        assert(r.new_id@[rep] == j);
        lemma_quot_run(a1, a2, r, p, dx, w1);
    }
}

pub open spec fn h_of(r: StateMapping) -> Seq<int> { Seq::new(r.new_id@.len(), |x: int| r.new_id@[x] as int) }

pub proof fn lemma_quotient(a1: Automaton, a2: Automaton, r: StateMapping, p: Partition)
    requires dfa_wf(a1), dfa_wf(a2), aut_remapped(a2, a1, r), pt_wf(p), p.base.size == a1.states@.len(), a1.states@.len() < u32::MAX - 1,
        map_of_partition(r, p), real_cong(a1, p),
        forall|x: u32, y: u32| x < a1.states@.len() && y < a1.states@.len() ==> #[trigger] same_blk(p, x, y) == st_equiv(a1, x as int, y as int),
    ensures quotient_of(a2, a1, h_of(r)),
{
    let h = h_of(r);
    assert forall|q: int| 0 <= q < a2.states@.len() implies #[trigger] has_preimage(h, q) by {
        assert(h[r.old_id@[q] as int] == q);
    }
    assert forall|x: int, w: Seq<u32>| 0 <= x < h.len() && ss_good(w) implies #[trigger] accepts_from(a2, h[x], w) == accepts_from(a1, x, w) by {
        lemma_quot_run(a1, a2, r, p, x, w);
    }
    assert forall|x: int, y: int| 0 <= x < h.len() && 0 <= y < h.len() implies (h[x] == h[y]) == #[trigger] st_equiv(a1, x, y) by {
        assert(r.new_id@[x] == pt_bid(p, x as u32) - 1);
        assert(r.new_id@[y] == pt_bid(p, y as u32) - 1);
        assert(same_blk(p, x as u32, y as u32) == st_equiv(a1, (x as u32) as int, (y as u32) as int));
    }
}

// a quotient by the equivalence accepts the same language and has no two equivalent states
pub proof fn lemma_quotient_props(a2: Automaton, a1: Automaton, h: Seq<int>)
    requires quotient_of(a2, a1, h), a1.initial_state < a1.states@.len(),
    ensures same_language(a2, a1), all_distinct(a2),
{
    assert forall|q1: int, q2: int| 0 <= q1 < a2.states@.len() && 0 <= q2 < a2.states@.len() && q1 != q2 implies !#[trigger] st_equiv(a2, q1, q2) by {
        assert(has_preimage(h, q1) && has_preimage(h, q2));
        let x1 = choose|x: int| 0 <= x < h.len() && #[trigger] h[x] == q1;
        let x2 = choose|x: int| 0 <= x < h.len() && #[trigger] h[x] == q2;
        assert(!st_equiv(a1, x1, x2));
        let w = choose|w: Seq<u32>| ss_good(w) && #[trigger] accepts_from(a1, x1, w) != accepts_from(a1, x2, w);
        assert(accepts_from(a2, h[x1], w) == accepts_from(a1, x1, w));
        assert(accepts_from(a2, h[x2], w) == accepts_from(a1, x2, w));
    }
}

// no block was merged: the automaton is its own quotient
pub proof fn lemma_identity_quotient(a: Automaton, p: Partition)
    requires dfa_wf(a), pt_wf(p), p.base.size == a.states@.len(), a.states@.len() < u32::MAX - 1,
        forall|x: u32, y: u32| x < a.states@.len() && y < a.states@.len() ==> #[trigger] same_blk(p, x, y) == st_equiv(a, x as int, y as int),
        forall|x: u32, y: u32| x < a.states@.len() && y < a.states@.len() && #[trigger] same_blk(p, x, y) ==> x == y,
    ensures quotient_of(a, a, Seq::new(a.states@.len(), |x: int| x)),
{
    let h = Seq::new(a.states@.len(), |x: int| x);
    assert forall|q: int| 0 <= q < a.states@.len() implies #[trigger] has_preimage(h, q) by { assert(h[q] == q); }
    assert forall|x: int, y: int| 0 <= x < h.len() && 0 <= y < h.len() implies (h[x] == h[y]) == #[trigger] st_equiv(a, x, y) by {
        assert(same_blk(p, x as u32, y as u32) == st_equiv(a, (x as u32) as int, (y as u32) as int));
        if x == y { assert(same_blk(p, x as u32, y as u32)); }
    }
}
