// ---- sub_language: sizes, concatenation of a list ----
pub open spec fn size_k(k: BaseRegLan) -> nat
    decreases k,
{
    match k {
        BaseRegLan::Empty => 1,
        BaseRegLan::Epsilon => 1,
        BaseRegLan::Range(c) => 1,
        BaseRegLan::Concat(a, b) => 1 + size_k(a.expr) + size_k(b.expr),
        BaseRegLan::Loop(a, r) => 1 + size_k(a.expr),
        BaseRegLan::Complement(a) => 1 + size_k(a.expr),
        BaseRegLan::Union(l) => 1 + size_list(l@, l@.len() as int),
        BaseRegLan::Inter(l) => 1 + size_list(l@, l@.len() as int),
    }
}

pub open spec fn size_list(l: Seq<RegLan>, n: int) -> nat
    decreases l, n,
{
    if n <= 0 || n > l.len() { 0 } else { size_list(l, n - 1) + size_k(l[n - 1].expr) }
}

pub proof fn lemma_size_list_elem(l: Seq<RegLan>, n: int, i: int)
    requires 0 <= i < n <= l.len(),
    ensures size_k(l[i].expr) <= size_list(l, n),
    decreases n,
{
    if i < n - 1 { lemma_size_list_elem(l, n - 1, i); }
}

pub open spec fn subset_of(r: BaseRegLan, s: BaseRegLan) -> bool {
    forall|w: Seq<u32>| #[trigger] lang_k(r, w) ==> lang_k(s, w)
}
