// a partition of [0, size) has at most size non-empty blocks
pub proof fn lemma_bp_num_blocks(p: BasePartition)
    requires bp_wf(p),
    ensures p.block@.len() <= p.size + 1,
{
    let q = Seq::new((p.block@.len() - 1) as nat, |b: int| p.block@[b + 1].start as int);
    assert forall|k: int| 0 <= k < q.len() implies 0 <= #[trigger] q[k] < p.size by {
        let h = p.block@[k + 1];
    }
    assert forall|k1: int, k2: int| 0 <= k1 < q.len() && 0 <= k2 < q.len() && k1 != k2 implies q[k1] != q[k2] by {
        assert(bh_disjoint(p.block@[k1 + 1], p.block@[k2 + 1]));
    }
    lemma_pigeonhole(q, p.size as int);
}

// swapping two entries keeps a sequence duplicate-free with the same members
pub proof fn lemma_swap_keeps(s1: Seq<u32>, s2: Seq<u32>, a: int, b: int)
    requires 0 <= a < s1.len(), 0 <= b < s1.len(), s2 == s1.update(a, s1[b]).update(b, s1[a]),
    ensures s2.len() == s1.len(),
        forall|v: u32| s1.contains(v) == s2.contains(v),
        (forall|k1: int, k2: int| 0 <= k1 < s1.len() && 0 <= k2 < s1.len() && k1 != k2 ==> s1[k1] != s1[k2])
            ==> (forall|k1: int, k2: int| 0 <= k1 < s2.len() && 0 <= k2 < s2.len() && k1 != k2 ==> s2[k1] != s2[k2]),
{
    let sw = |k: int| if k == a { b } else if k == b { a } else { k };
    assert forall|k: int| 0 <= k < s1.len() implies s2[k] == s1[sw(k)] by {}
    assert forall|v: u32| s1.contains(v) == s2.contains(v) by {
        if s1.contains(v) {
            let k = choose|k: int| 0 <= k < s1.len() && s1[k] == v;
            assert(s2[sw(k)] == v);
        }
        if s2.contains(v) {
            let k = choose|k: int| 0 <= k < s2.len() && s2[k] == v;
            assert(s1[sw(k)] == v);
        }
    }
    if forall|k1: int, k2: int| 0 <= k1 < s1.len() && 0 <= k2 < s1.len() && k1 != k2 ==> s1[k1] != s1[k2] {
        assert forall|k1: int, k2: int| 0 <= k1 < s2.len() && 0 <= k2 < s2.len() && k1 != k2 implies s2[k1] != s2[k2] by {
            assert(s2[k1] == s1[sw(k1)] && s2[k2] == s1[sw(k2)]);
            assert(sw(k1) != sw(k2));
        }
    }
}

// what refine_block has done once its loop is over: block i's slice was permuted into s with the
// first j entries accepted by f and the others rejected, and the block was split at j (when 0 < j < len)
pub proof fn lemma_bp_refine<P: Fn(u32) -> bool>(p1: BasePartition, p2: BasePartition, i: int, s: Seq<u32>, j: int, f: P, r: (u32, u32))
    requires bp_wf(p1), 0 <= i < p1.block@.len(), p1.block@.len() < u32::MAX,
        s.len() == p1.block@[i].end - p1.block@[i].start, 0 <= j <= s.len(),
        p2.size == p1.size,
        p2.segment@ =~= p1.segment@.subrange(0, p1.block@[i].start as int) + s + p1.segment@.subrange(p1.block@[i].end as int, p1.size as int),
        forall|v: u32| p1.segment@.subrange(p1.block@[i].start as int, p1.block@[i].end as int).contains(v) == s.contains(v),
        forall|k1: int, k2: int| 0 <= k1 < s.len() && 0 <= k2 < s.len() && k1 != k2 ==> s[k1] != s[k2],
        forall|t: int| 0 <= t < j ==> call_ensures(f, (#[trigger] s[t],), true),
        forall|t: int| j <= t < s.len() ==> call_ensures(f, (#[trigger] s[t],), false),
        j == 0 ==> r == (0u32, i as u32) && p2.block@ == p1.block@,
        j > 0 && j == s.len() ==> r == (i as u32, 0u32) && p2.block@ == p1.block@,
        0 < j < s.len() ==> r == (i as u32, p1.block@.len() as u32)
            && p2.block@ == p1.block@.update(i, BlockHeader { start: p1.block@[i].start, end: (p1.block@[i].start + j) as usize })
                .push(BlockHeader { start: (p1.block@[i].start + j) as usize, end: p1.block@[i].end }),
    ensures bp_wf(p2), bp_refined(p2, p1, i, f, r),
{
    let st = p1.block@[i].start as int;
    let en = p1.block@[i].end as int;
    let n = p1.size as int;
    let nb = p1.block@.len() as int;
    let g1 = p1.segment@;
    let g2 = p2.segment@;
    let old_sl = g1.subrange(st, en);
    if i == 0 { assert(st == 0 && en == 0); } else { assert(p1.block@[i].start < p1.block@[i].end && p1.block@[i].end <= p1.size); }
    assert(0 <= st <= en <= n);
    assert(g2.len() == n);
    assert forall|k: int| 0 <= k < n implies g2[k] == (if k < st { g1[k] } else if k < en { s[k - st] } else { g1[k] }) by {}
    // members of s are members of the old slice, hence segment entries of p1 inside block i
    assert forall|t: int| 0 <= t < s.len() implies exists|k: int| st <= k < en && g1[k] == #[trigger] s[t] by {
        assert(s.contains(s[t]));
        assert(old_sl.contains(s[t]));
        let k0 = choose|k0: int| 0 <= k0 < old_sl.len() && old_sl[k0] == s[t];
        assert(g1[st + k0] == s[t]);
    }
    assert forall|k: int| st <= k < en implies s.contains(#[trigger] g1[k]) by {
        assert(old_sl[k - st] == g1[k]);
        assert(old_sl.contains(g1[k]));
    }
    // p2.segment: values below size, no duplicates
    assert forall|k: int| 0 <= k < n implies (#[trigger] g2[k]) < n by {
        if st <= k < en { let k1 = choose|k1: int| st <= k1 < en && g1[k1] == s[k - st]; }
    }
    assert forall|k1: int, k2: int| 0 <= k1 < n && 0 <= k2 < n && k1 != k2 implies g2[k1] != g2[k2] by {
        let in1 = st <= k1 < en;
        let in2 = st <= k2 < en;
        if in1 && in2 { assert(s[k1 - st] != s[k2 - st]); }
        else if in1 { let k = choose|k: int| st <= k < en && g1[k] == s[k1 - st]; assert(g1[k] != g1[k2]); }
        else if in2 { let k = choose|k: int| st <= k < en && g1[k] == s[k2 - st]; assert(g1[k] != g1[k1]); }
        else { assert(g1[k1] != g1[k2]); }
    }
    // old block i as a set is the set of members of s
    assert forall|x: u32| bp_in(p1, i, x) == s.contains(x) by {
        if bp_in(p1, i, x) {
            let k = choose|k: int| bh_in(p1.block@[i], k) && #[trigger] g1[k] == x;
            assert(s.contains(g1[k]));
        }
        if s.contains(x) {
            let t = choose|t: int| 0 <= t < s.len() && s[t] == x;
            let k = choose|k: int| st <= k < en && g1[k] == s[t];
            assert(bh_in(p1.block@[i], k));
        }
    }
    // blocks other than i: same header, same content
    assert forall|b: int, x: u32| 0 <= b < nb && b != i implies bp_in(p2, b, x) == #[trigger] bp_in(p1, b, x) by {
        assert(p2.block@[b] == p1.block@[b]);
        let h = p1.block@[b];
        if b >= 1 && i >= 1 { assert(bh_disjoint(p1.block@[b], p1.block@[i])); }
        assert forall|k: int| bh_in(h, k) implies g2[k] == g1[k] by {
            if b == 0 { } else { assert(h.start < h.end && h.end <= p1.size); }
        }
        if bp_in(p1, b, x) { let k = choose|k: int| bh_in(p1.block@[b], k) && #[trigger] g1[k] == x; assert(g2[k] == x); assert(bh_in(p2.block@[b], k)); }
        if bp_in(p2, b, x) { let k = choose|k: int| bh_in(p2.block@[b], k) && #[trigger] g2[k] == x; assert(g1[k] == x); assert(bh_in(p1.block@[b], k)); }
    }
    assert(bp_others_same(p2, p1, i)) by {
        assert forall|k: int| 0 <= k < p1.size && !bh_in(p1.block@[i], k) implies #[trigger] g2[k] == g1[k] by {}
    }
    if j == 0 || j == s.len() {
        assert(p2.block@ == p1.block@);
        assert forall|x: u32| bp_in(p2, i, x) == #[trigger] bp_in(p1, i, x) by {
            if bp_in(p2, i, x) { let k = choose|k: int| bh_in(p2.block@[i], k) && #[trigger] g2[k] == x; assert(s[k - st] == x); assert(s.contains(x)); }
            if bp_in(p1, i, x) { let t = choose|t: int| 0 <= t < s.len() && s[t] == x; assert(g2[st + t] == x); assert(bh_in(p2.block@[i], st + t)); }
        }
        assert forall|x: u32| bp_in(p1, i, x) implies (if j == 0 { call_ensures(f, (x,), false) } else { call_ensures(f, (x,), true) }) by {
            let t = choose|t: int| 0 <= t < s.len() && s[t] == x;
        }
        assert(bp_wf(p2));
        assert(bp_refined(p2, p1, i, f, r));
    } else {
        assert(i >= 1);
        let h1 = BlockHeader { start: st as usize, end: (st + j) as usize };
        let h2 = BlockHeader { start: (st + j) as usize, end: en as usize };
        assert(p2.block@.len() == nb + 1);
        assert(p2.block@[i] == h1 && p2.block@[nb] == h2);
        assert forall|b: int| 0 <= b < nb && b != i implies p2.block@[b] == p1.block@[b] by {}
        assert forall|x: u32| #[trigger] bp_in(p2, i, x) implies bp_in(p1, i, x) && call_ensures(f, (x,), true) by {
            let k = choose|k: int| bh_in(p2.block@[i], k) && #[trigger] g2[k] == x;
            assert(s[k - st] == x); assert(s.contains(x));
        }
        assert forall|x: u32| #[trigger] bp_in(p2, nb, x) implies bp_in(p1, i, x) && call_ensures(f, (x,), false) by {
            let k = choose|k: int| bh_in(p2.block@[nb], k) && #[trigger] g2[k] == x;
            assert(s[k - st] == x); assert(s.contains(x));
        }
        assert forall|x: u32| #[trigger] bp_in(p1, i, x) implies bp_in(p2, i, x) || bp_in(p2, nb, x) by {
            let t = choose|t: int| 0 <= t < s.len() && s[t] == x;
            assert(g2[st + t] == x);
            if t < j { assert(bh_in(p2.block@[i], st + t)); } else { assert(bh_in(p2.block@[nb], st + t)); }
        }
        // well-formedness of the new block table
        assert forall|b: int| 1 <= b < p2.block@.len() implies (#[trigger] p2.block@[b]).start < p2.block@[b].end && p2.block@[b].end <= p2.size by {
            if b != i && b != nb { assert(p2.block@[b] == p1.block@[b]); }
        }
        assert forall|b1: int, b2: int| 1 <= b1 < p2.block@.len() && 1 <= b2 < p2.block@.len() && b1 != b2 implies bh_disjoint(#[trigger] p2.block@[b1], #[trigger] p2.block@[b2]) by {
            let o1 = if b1 == nb { i } else { b1 };
            let o2 = if b2 == nb { i } else { b2 };
            if o1 != o2 { assert(bh_disjoint(p1.block@[o1], p1.block@[o2])); }
        }
        assert(bp_wf(p2));
        assert(bp_refined(p2, p1, i, f, r));
    }
}

// an element lies in one block only
pub proof fn lemma_bp_unique(p: BasePartition, b1: int, b2: int, x: u32)
    requires bp_wf(p), 1 <= b1 < p.block@.len(), 1 <= b2 < p.block@.len(), bp_in(p, b1, x), bp_in(p, b2, x),
    ensures b1 == b2,
{
    let k1 = choose|k: int| bh_in(p.block@[b1], k) && #[trigger] p.segment@[k] == x;
    let k2 = choose|k: int| bh_in(p.block@[b2], k) && #[trigger] p.segment@[k] == x;
    let h1 = p.block@[b1];
    let h2 = p.block@[b2];
    assert(h1.end <= p.size && h2.end <= p.size);
    if k1 != k2 { assert(p.segment@[k1] != p.segment@[k2]); }
    if b1 != b2 { assert(bh_disjoint(p.block@[b1], p.block@[b2])); }
}

// block membership is what block_id says
pub proof fn lemma_pt_in_iff(p: Partition, b: int, x: u32)
    requires pt_wf(p), 1 <= b < p.base.block@.len(), x < p.base.size,
    ensures bp_in(p.base, b, x) == (pt_bid(p, x) == b),
{
    assert(bp_in(p.base, p.block_id@[x as int] as int, x));
    if bp_in(p.base, b, x) { lemma_bp_unique(p.base, b, p.block_id@[x as int] as int, x); }
}

// members of blocks are elements below size
pub proof fn lemma_bp_in_range(p: BasePartition, b: int, x: u32)
    requires bp_wf(p), 0 <= b < p.block@.len(), bp_in(p, b, x),
    ensures x < p.size, b >= 1,
{
    let k = choose|k: int| bh_in(p.block@[b], k) && #[trigger] p.segment@[k] == x;
    if b >= 1 { assert(p.block@[b].end <= p.size); }
}

// two different elements in one block: the block has at least two entries
pub proof fn lemma_pt_two(p: Partition, x: u32, y: u32)
    requires pt_wf(p), x < p.base.size, y < p.base.size, x != y, pt_bid(p, x) == pt_bid(p, y),
    ensures p.base.block@[pt_bid(p, x) as int].end - p.base.block@[pt_bid(p, x) as int].start >= 2,
{
    let b = pt_bid(p, x) as int;
    assert(bp_in(p.base, b, x) && bp_in(p.base, b, y));
    let k1 = choose|k: int| bh_in(p.base.block@[b], k) && #[trigger] p.base.segment@[k] == x;
    let k2 = choose|k: int| bh_in(p.base.block@[b], k) && #[trigger] p.base.segment@[k] == y;
    assert(k1 != k2);
}

// after the base partition was refined and the ids of the new block were updated, the full partition is consistent again
pub proof fn lemma_pt_refine(p1: Partition, p2: Partition, i: int, rel: spec_fn(u32, bool) -> bool, relb: spec_fn(u32, bool) -> bool, r: (u32, u32))
    requires pt_wf(p1), 0 <= i < p1.base.block@.len(), bp_wf(p2.base),
        // what BasePartition::refine_block ensures, with its closure's relation relb
        bp_others_same(p2.base, p1.base, i),
        r.0 != 0 && r.1 != 0,
        r.0 == i && r.1 == p1.base.block@.len() && p2.base.block@.len() == p1.base.block@.len() + 1,
        forall|x: u32| #[trigger] bp_in(p2.base, i, x) ==> bp_in(p1.base, i, x) && relb(x, true),
        forall|x: u32| #[trigger] bp_in(p2.base, r.1 as int, x) ==> bp_in(p1.base, i, x) && relb(x, false),
        forall|x: u32| #[trigger] bp_in(p1.base, i, x) ==> bp_in(p2.base, i, x) || bp_in(p2.base, r.1 as int, x),
        forall|b: int, x: u32| 0 <= b < p1.base.block@.len() && b != i ==> bp_in(p2.base, b, x) == #[trigger] bp_in(p1.base, b, x),
        forall|x: u32, v: bool| x < p1.base.size && #[trigger] relb(x, v) ==> rel(x, v),
        // the id update
        p2.block_id@.len() == p1.block_id@.len(),
        forall|x: u32| x < p1.base.size ==> #[trigger] p2.block_id@[x as int] == (if bp_in(p2.base, r.1 as int, x) { r.1 } else { p1.block_id@[x as int] }),
    ensures pt_wf(p2), pt_refined(p2, p1, i, rel, r),
{
    let n = p1.base.size;
    let nb = p1.base.block@.len() as int;
    let j = r.1 as int;
    assert(j == nb);
    assert forall|x: u32| x < n implies #[trigger] bp_in(p2.base, p2.block_id@[x as int] as int, x) && 1 <= p2.block_id@[x as int] < nb + 1 by {
        let b = p1.block_id@[x as int] as int;
        assert(bp_in(p1.base, b, x));
        if !bp_in(p2.base, j, x) {
            if b == i { assert(bp_in(p2.base, i, x)); } else { assert(bp_in(p2.base, b, x) == bp_in(p1.base, b, x)); }
        }
    }
    assert forall|b: int, k: int| 1 <= b < nb + 1 && #[trigger] bh_in(p2.base.block@[b], k) implies p2.block_id@[p2.base.segment@[k] as int] == b by {
        let x = p2.base.segment@[k];
        assert(p2.base.block@[b].end <= p2.base.size);
        assert(bp_in(p2.base, b, x));
        if b != j {
            if bp_in(p2.base, j, x) { lemma_bp_unique(p2.base, b, j, x); }
            if b == i { assert(bp_in(p1.base, i, x)); } else { assert(bp_in(p2.base, b, x) == bp_in(p1.base, b, x)); }
            lemma_pt_in_iff(p1, b, x);
        }
    }
    assert(pt_wf(p2));
    assert forall|x: u32| x < n && pt_bid(p1, x) != i implies #[trigger] pt_bid(p2, x) == pt_bid(p1, x) by {
        if bp_in(p2.base, j, x) { assert(bp_in(p1.base, i, x)); lemma_pt_in_iff(p1, i, x); }
    }
    assert forall|x: u32| x < n && pt_bid(p1, x) == i implies (#[trigger] pt_bid(p2, x) == i && rel(x, true)) || (pt_bid(p2, x) == r.1 && rel(x, false)) by {
        assert(bp_in(p1.base, i, x));
        if bp_in(p2.base, j, x) { assert(relb(x, false)); } else { assert(bp_in(p2.base, i, x)); assert(relb(x, true)); }
    }
}

// the base partition kept its blocks as sets (only the order inside block i may differ): the full partition is still consistent
pub proof fn lemma_pt_same_blocks(p1: Partition, p2: Partition, i: int)
    requires pt_wf(p1), bp_wf(p2.base), 0 <= i < p1.base.block@.len(), p2.block_id@ == p1.block_id@,
        p2.base.size == p1.base.size, p2.base.block@ == p1.base.block@,
        forall|b: int, x: u32| 0 <= b < p1.base.block@.len() ==> bp_in(p2.base, b, x) == #[trigger] bp_in(p1.base, b, x),
    ensures pt_wf(p2),
{
    assert forall|x: u32| x < p2.base.size implies #[trigger] bp_in(p2.base, p2.block_id@[x as int] as int, x) by {
        assert(bp_in(p1.base, p1.block_id@[x as int] as int, x));
    }
    assert forall|b: int, k: int| 1 <= b < p2.base.block@.len() && #[trigger] bh_in(p2.base.block@[b], k) implies p2.block_id@[p2.base.segment@[k] as int] == b by {
        let x = p2.base.segment@[k];
        assert(p2.base.block@[b].end <= p2.base.size);
        assert(bp_in(p2.base, b, x));
        assert(bp_in(p1.base, b, x));
        lemma_pt_in_iff(p1, b, x);
    }
}
