// ---- concatenation of a list of languages ----
// w is a concatenation of words of v[0], ..., v[n-1] in order (left-nested)
pub open spec fn cat_upto(v: Seq<RegLan>, n: int, w: Seq<u32>) -> bool
    decreases n,
{
    if n <= 0 { w.len() == 0 }
    else { exists|i: int| #![trigger wit(i)] 0 <= i <= w.len() && wit(i) && cat_upto(v, n - 1, w.subrange(0, i)) && lang_k(v[n - 1].expr, w.subrange(i, w.len() as int)) }
}

// w is a concatenation of words of v[k], ..., v[len-1] in order (right-nested)
pub open spec fn cat_from(v: Seq<RegLan>, k: int, w: Seq<u32>) -> bool
    decreases v.len() - k,
{
    if k >= v.len() { w.len() == 0 }
    else { exists|i: int| #![trigger wit(i)] 0 <= i <= w.len() && wit(i) && lang_k(v[k].expr, w.subrange(0, i)) && cat_from(v, k + 1, w.subrange(i, w.len() as int)) }
}

// subranges of subranges, for a word cut at i <= j
pub proof fn lemma_sub3(w: Seq<u32>, i: int, j: int)
    requires 0 <= i <= j <= w.len(),
    ensures
        w.subrange(0, j).subrange(0, i) == w.subrange(0, i),
        w.subrange(0, j).subrange(i, j) == w.subrange(i, w.len() as int).subrange(0, j - i),
        w.subrange(j, w.len() as int) == w.subrange(i, w.len() as int).subrange(j - i, w.len() - i),
{
    assert(w.subrange(0, j).subrange(0, i) =~= w.subrange(0, i));
    assert(w.subrange(0, j).subrange(i, j) =~= w.subrange(i, w.len() as int).subrange(0, j - i));
    assert(w.subrange(j, w.len() as int) =~= w.subrange(i, w.len() as int).subrange(j - i, w.len() - i));
}

// w = w1 . w2 with w1 in the concatenation of v[0..n) and w2 in L(x)
pub open spec fn cat_then(v: Seq<RegLan>, n: int, x: BaseRegLan, w: Seq<u32>) -> bool {
    exists|i: int| #![trigger wit(i)] 0 <= i <= w.len() && wit(i) && cat_upto(v, n, w.subrange(0, i)) && lang_k(x, w.subrange(i, w.len() as int))
}

pub proof fn lemma_cat_upto_prefix(v: Seq<RegLan>, v2: Seq<RegLan>, n: int, w: Seq<u32>)
    requires n <= v.len(), n <= v2.len(), forall|i: int| 0 <= i < n ==> v[i] == v2[i],
    ensures cat_upto(v, n, w) == cat_upto(v2, n, w),
    decreases n,
{
    if n > 0 {
        assert forall|i: int| 0 <= i <= w.len() implies cat_upto(v, n - 1, #[trigger] w.subrange(0, i)) == cat_upto(v2, n - 1, w.subrange(0, i)) by {
            lemma_cat_upto_prefix(v, v2, n - 1, w.subrange(0, i));
        }
        if cat_upto(v, n, w) {
            let i = choose|i: int| #![trigger wit(i)] 0 <= i <= w.len() && wit(i) && cat_upto(v, n - 1, w.subrange(0, i)) && lang_k(v[n - 1].expr, w.subrange(i, w.len() as int));
            assert(cat_upto(v2, n - 1, w.subrange(0, i)));
            assert(wit(i));
        }
        if cat_upto(v2, n, w) {
            let i = choose|i: int| #![trigger wit(i)] 0 <= i <= w.len() && wit(i) && cat_upto(v2, n - 1, w.subrange(0, i)) && lang_k(v2[n - 1].expr, w.subrange(i, w.len() as int));
            assert(cat_upto(v, n - 1, w.subrange(0, i)));
            assert(wit(i));
        }
    }
}

// pushing r: the new list concatenates to (old concatenation) . L(r)
pub proof fn lemma_cat_push(v: Seq<RegLan>, r: RegLan, w: Seq<u32>)
    ensures cat_upto(v.push(r), v.len() as int + 1, w) == cat_then(v, v.len() as int, r.expr, w),
{
    let v2 = v.push(r);
    let n = v.len() as int;
    assert(v2[n] == r);
    assert forall|i: int| 0 <= i <= w.len() implies cat_upto(v2, n, #[trigger] w.subrange(0, i)) == cat_upto(v, n, w.subrange(0, i)) by {
        lemma_cat_upto_prefix(v2, v, n, w.subrange(0, i));
    }
    if cat_upto(v2, n + 1, w) {
        let i = choose|i: int| #![trigger wit(i)] 0 <= i <= w.len() && wit(i) && cat_upto(v2, n, w.subrange(0, i)) && lang_k(v2[n].expr, w.subrange(i, w.len() as int));
        assert(cat_upto(v, n, w.subrange(0, i)));
        assert(wit(i));
    }
    if cat_then(v, n, r.expr, w) {
        let i = choose|i: int| #![trigger wit(i)] 0 <= i <= w.len() && wit(i) && cat_upto(v, n, w.subrange(0, i)) && lang_k(r.expr, w.subrange(i, w.len() as int));
        assert(cat_upto(v2, n, w.subrange(0, i)));
        assert(wit(i));
    }
}

// (A . X) . Y  is inside  A . (X . Y)
pub proof fn lemma_cat_assoc_fwd(v1: Seq<RegLan>, n1: int, x: RegLan, y: RegLan, w: Seq<u32>, j: int, i: int)
    requires 0 <= i <= j <= w.len(),
        cat_upto(v1, n1, w.subrange(0, i)), lang_k(x.expr, w.subrange(0, j).subrange(i, j)), lang_k(y.expr, w.subrange(j, w.len() as int)),
    ensures cat_then(v1, n1, BaseRegLan::Concat(x, y), w),
{
    lemma_sub3(w, i, j);
    let t = w.subrange(i, w.len() as int);
    assert(lang_k(x.expr, t.subrange(0, j - i)));
    assert(lang_k(y.expr, t.subrange(j - i, t.len() as int)));
    assert(wit(j - i));
    assert(lang_k(BaseRegLan::Concat(x, y), t));
    assert(wit(i));
}

// A . (X . Y)  is inside  (A . X) . Y: the cut points
pub proof fn lemma_cat_assoc_bwd(v1: Seq<RegLan>, n1: int, x: RegLan, y: RegLan, w: Seq<u32>, i: int, d: int)
    requires 0 <= i <= w.len(), 0 <= d <= w.len() - i,
        cat_upto(v1, n1, w.subrange(0, i)),
        lang_k(x.expr, w.subrange(i, w.len() as int).subrange(0, d)), lang_k(y.expr, w.subrange(i, w.len() as int).subrange(d, w.len() - i)),
    ensures cat_then(v1, n1, x.expr, w.subrange(0, i + d)), lang_k(y.expr, w.subrange(i + d, w.len() as int)),
{
    lemma_sub3(w, i, i + d);
    let u = w.subrange(0, i + d);
    assert(u.subrange(0, i) == w.subrange(0, i));
    assert(u.subrange(i, u.len() as int) == w.subrange(i, w.len() as int).subrange(0, d));
    assert(wit(i));
}

// (A . X) . Y == A . (X . Y) at the level of splits
pub proof fn lemma_cat_then_assoc(v1: Seq<RegLan>, n1: int, v2: Seq<RegLan>, n2: int, v3: Seq<RegLan>, n3: int, x: RegLan, y: RegLan, w: Seq<u32>)
    requires
        forall|u: Seq<u32>| #[trigger] cat_upto(v2, n2, u) == cat_then(v1, n1, x.expr, u),
        forall|u: Seq<u32>| #[trigger] cat_upto(v3, n3, u) == cat_then(v2, n2, y.expr, u),
    ensures cat_upto(v3, n3, w) == cat_then(v1, n1, BaseRegLan::Concat(x, y), w),
{
    let k = BaseRegLan::Concat(x, y);
    if cat_upto(v3, n3, w) {
        assert(cat_then(v2, n2, y.expr, w));
        let j = choose|j: int| #![trigger wit(j)] 0 <= j <= w.len() && wit(j) && cat_upto(v2, n2, w.subrange(0, j)) && lang_k(y.expr, w.subrange(j, w.len() as int));
        let u = w.subrange(0, j);
        assert(cat_then(v1, n1, x.expr, u));
        let i = choose|i: int| #![trigger wit(i)] 0 <= i <= u.len() && wit(i) && cat_upto(v1, n1, u.subrange(0, i)) && lang_k(x.expr, u.subrange(i, u.len() as int));
        lemma_sub3(w, i, j);
        lemma_cat_assoc_fwd(v1, n1, x, y, w, j, i);
    }
    if cat_then(v1, n1, k, w) {
        let i = choose|i: int| #![trigger wit(i)] 0 <= i <= w.len() && wit(i) && cat_upto(v1, n1, w.subrange(0, i)) && lang_k(k, w.subrange(i, w.len() as int));
        let t = w.subrange(i, w.len() as int);
        let d = choose|d: int| #![trigger wit(d)] 0 <= d <= t.len() && wit(d) && lang_k(x.expr, t.subrange(0, d)) && lang_k(y.expr, t.subrange(d, t.len() as int));
        lemma_cat_assoc_bwd(v1, n1, x, y, w, i, d);
        assert(cat_upto(v2, n2, w.subrange(0, i + d)));
        assert(wit(i + d));
        assert(cat_then(v2, n2, y.expr, w));
    }
}

// splitting the list at k: prefix concatenation then suffix concatenation
pub open spec fn cat_split(v: Seq<RegLan>, k: int, w: Seq<u32>) -> bool {
    exists|i: int| #![trigger wit(i)] 0 <= i <= w.len() && wit(i) && cat_upto(v, k, w.subrange(0, i)) && cat_from(v, k, w.subrange(i, w.len() as int))
}

pub proof fn lemma_cat_split_step(v: Seq<RegLan>, k: int, w: Seq<u32>)
    requires 0 <= k < v.len(),
    ensures cat_split(v, k, w) == cat_split(v, k + 1, w),
{
    if cat_split(v, k, w) {
        let i = choose|i: int| #![trigger wit(i)] 0 <= i <= w.len() && wit(i) && cat_upto(v, k, w.subrange(0, i)) && cat_from(v, k, w.subrange(i, w.len() as int));
        let t = w.subrange(i, w.len() as int);
        let d = choose|d: int| #![trigger wit(d)] 0 <= d <= t.len() && wit(d) && lang_k(v[k].expr, t.subrange(0, d)) && cat_from(v, k + 1, t.subrange(d, t.len() as int));
        let j = i + d;
        let u = w.subrange(0, j);
        lemma_sub3(w, i, j);
        assert(u.subrange(0, i) == w.subrange(0, i));
        assert(u.subrange(i, u.len() as int) == t.subrange(0, d));
        assert(w.subrange(j, w.len() as int) == t.subrange(d, t.len() as int));
        assert(wit(i));
        assert(cat_upto(v, k + 1, u));
        assert(wit(j));
    }
    if cat_split(v, k + 1, w) {
        let j = choose|j: int| #![trigger wit(j)] 0 <= j <= w.len() && wit(j) && cat_upto(v, k + 1, w.subrange(0, j)) && cat_from(v, k + 1, w.subrange(j, w.len() as int));
        let u = w.subrange(0, j);
        let i = choose|i: int| #![trigger wit(i)] 0 <= i <= u.len() && wit(i) && cat_upto(v, k, u.subrange(0, i)) && lang_k(v[k].expr, u.subrange(i, u.len() as int));
        let t = w.subrange(i, w.len() as int);
        lemma_sub3(w, i, j);
        assert(u.subrange(0, i) == w.subrange(0, i));
        assert(u.subrange(i, u.len() as int) == t.subrange(0, j - i));
        assert(w.subrange(j, w.len() as int) == t.subrange(j - i, t.len() as int));
        assert(wit(j - i));
        assert(cat_from(v, k, t));
        assert(wit(i));
    }
}

pub proof fn lemma_cat_split_all(v: Seq<RegLan>, k: int, w: Seq<u32>)
    requires 0 <= k <= v.len(),
    ensures cat_split(v, k, w) == cat_from(v, 0, w),
    decreases k,
{
    if k == 0 {
        if cat_split(v, 0, w) {
            let i = choose|i: int| #![trigger wit(i)] 0 <= i <= w.len() && wit(i) && cat_upto(v, 0, w.subrange(0, i)) && cat_from(v, 0, w.subrange(i, w.len() as int));
            assert(w.subrange(i, w.len() as int) =~= w);
        }
        if cat_from(v, 0, w) {
            assert(w.subrange(0, 0).len() == 0);
            assert(w.subrange(0, w.len() as int) =~= w);
            assert(wit(0));
        }
    } else {
        lemma_cat_split_step(v, k - 1, w);
        lemma_cat_split_all(v, k - 1, w);
    }
}

// left-nested and right-nested concatenation of the whole list agree
pub proof fn lemma_cat_upto_from(v: Seq<RegLan>, w: Seq<u32>)
    ensures cat_upto(v, v.len() as int, w) == cat_from(v, 0, w),
{
    let n = v.len() as int;
    lemma_cat_split_all(v, n, w);
    if cat_upto(v, n, w) {
        assert(w.subrange(0, w.len() as int) =~= w);
        assert(w.subrange(w.len() as int, w.len() as int).len() == 0);
        assert(wit(w.len() as int));
        assert(cat_split(v, n, w));
    }
    if cat_split(v, n, w) {
        let i = choose|i: int| #![trigger wit(i)] 0 <= i <= w.len() && wit(i) && cat_upto(v, n, w.subrange(0, i)) && cat_from(v, n, w.subrange(i, w.len() as int));
        assert(i == w.len());
        assert(w.subrange(0, i) =~= w);
    }
}
