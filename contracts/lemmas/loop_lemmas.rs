// ---- language algebra for loops ----
pub proof fn lemma_loop_zero(a: BaseRegLan, r: LoopRange, w: Seq<u32>)
    requires r.0 == 0, r.1 == Some(0u32),
    ensures in_loop(a, r, w) == (w.len() == 0),
{
    if w.len() == 0 { assert(wit(0) && lr_has(r, 0)); }
    if in_loop(a, r, w) {
        let n = choose|n: int| #![trigger wit(n)] 0 <= n && wit(n) && lr_has(r, n) && pow(a, n as nat, w);
        assert(n == 0);
    }
}

pub proof fn lemma_loop_one(a: BaseRegLan, r: LoopRange, w: Seq<u32>)
    requires r.0 == 1, r.1 == Some(1u32),
    ensures in_loop(a, r, w) == lang_k(a, w),
{
    lemma_pow_one(a, w);
    if lang_k(a, w) { assert(wit(1) && lr_has(r, 1)); }
    if in_loop(a, r, w) {
        let n = choose|n: int| #![trigger wit(n)] 0 <= n && wit(n) && lr_has(r, n) && pow(a, n as nat, w);
        assert(n == 1);
    }
}

pub proof fn lemma_pow_empty(a: BaseRegLan, n: nat, w: Seq<u32>)
    requires a is Empty,
    ensures pow(a, n, w) == (n == 0 && w.len() == 0),
{
}

pub proof fn lemma_loop_empty(a: BaseRegLan, r: LoopRange, w: Seq<u32>)
    requires a is Empty,
    ensures in_loop(a, r, w) == (r.0 == 0 && w.len() == 0),
{
    if r.0 == 0 && w.len() == 0 { assert(wit(0) && lr_has(r, 0)); }
    if in_loop(a, r, w) {
        let n = choose|n: int| #![trigger wit(n)] 0 <= n && wit(n) && lr_has(r, n) && pow(a, n as nat, w);
        lemma_pow_empty(a, n as nat, w);
    }
}

pub proof fn lemma_pow_eps(a: BaseRegLan, n: nat, w: Seq<u32>)
    requires a is Epsilon,
    ensures pow(a, n, w) == (w.len() == 0),
    decreases n,
{
    if n > 0 {
        if pow(a, n, w) {
            let i = choose|i: int| #![trigger wit(i)] 0 <= i <= w.len() && wit(i) && lang_k(a, w.subrange(0, i)) && pow(a, (n - 1) as nat, w.subrange(i, w.len() as int));
            lemma_pow_eps(a, (n - 1) as nat, w.subrange(i, w.len() as int));
        }
        if w.len() == 0 {
            lemma_pow_eps(a, (n - 1) as nat, w.subrange(0, 0));
            assert(wit(0));
        }
    }
}

pub proof fn lemma_loop_eps(a: BaseRegLan, r: LoopRange, w: Seq<u32>)
    requires a is Epsilon, lr_wf(r),
    ensures in_loop(a, r, w) == (w.len() == 0),
{
    if w.len() == 0 {
        lemma_pow_eps(a, r.0 as nat, w);
        assert(wit(r.0 as int) && lr_has(r, r.0 as int));
    }
    if in_loop(a, r, w) {
        let n = choose|n: int| #![trigger wit(n)] 0 <= n && wit(n) && lr_has(r, n) && pow(a, n as nat, w);
        lemma_pow_eps(a, n as nat, w);
    }
}

// a word is the concatenation of y words, each a power x^m with m in xr
// iff it is a power x^n where n is a sum of y members of xr
pub open spec fn pow_sum(x: BaseRegLan, xr: LoopRange, y: nat, w: Seq<u32>) -> bool {
    exists|n: int| #![trigger wit(n)] 0 <= n && wit(n) && ksum(xr, y, n) && pow(x, n as nat, w)
}

pub proof fn lemma_ksum_nonneg(r: LoopRange, k: nat, n: int)
    requires ksum(r, k, n),
    ensures n >= 0,
    decreases k,
{
    if k > 0 {
        let m = choose|m: int| #[trigger] wit(m) && ksum(r, (k - 1) as nat, m) && lr_has(r, n - m);
        lemma_ksum_nonneg(r, (k - 1) as nat, m);
    }
}

pub proof fn lemma_pow_of_loop(lx: RegLan, xr: LoopRange, y: nat, w: Seq<u32>)
    ensures pow(BaseRegLan::Loop(lx, xr), y, w) == pow_sum(lx.expr, xr, y, w),
    decreases y,
{
    let kl = BaseRegLan::Loop(lx, xr);
    let x = lx.expr;
    if y == 0 {
        if w.len() == 0 { assert(wit(0) && ksum(xr, 0, 0) && pow(x, 0, w)); }
        if pow_sum(x, xr, y, w) {
            let n = choose|n: int| #![trigger wit(n)] 0 <= n && wit(n) && ksum(xr, y, n) && pow(x, n as nat, w);
            assert(n == 0);
        }
    } else {
        let y1 = (y - 1) as nat;
        if pow(kl, y, w) {
            let i = choose|i: int| #![trigger wit(i)] 0 <= i <= w.len() && wit(i) && lang_k(kl, w.subrange(0, i)) && pow(kl, y1, w.subrange(i, w.len() as int));
            let u = w.subrange(0, i);
            let v = w.subrange(i, w.len() as int);
            lemma_loop_is_in_loop(lx, xr, u);
            let m = choose|m: int| #![trigger wit(m)] 0 <= m && wit(m) && lr_has(xr, m) && pow(x, m as nat, u);
            lemma_pow_of_loop(lx, xr, y1, v);
            let n1 = choose|n1: int| #![trigger wit(n1)] 0 <= n1 && wit(n1) && ksum(xr, y1, n1) && pow(x, n1 as nat, v);
            lemma_pow_add(x, m as nat, n1 as nat, u, v);
            lemma_split(w, i);
            let n = m + n1;
            assert(wit(n1) && ksum(xr, y1, n1) && lr_has(xr, n - n1));
            assert(ksum(xr, y, n));
            assert((m as nat) + (n1 as nat) == n as nat);
            assert(wit(n));
        }
        if pow_sum(x, xr, y, w) {
            let n = choose|n: int| #![trigger wit(n)] 0 <= n && wit(n) && ksum(xr, y, n) && pow(x, n as nat, w);
            let n1 = choose|n1: int| #[trigger] wit(n1) && ksum(xr, y1, n1) && lr_has(xr, n - n1);
            lemma_ksum_nonneg(xr, y1, n1);
            let m = n - n1;
            assert(m >= 0);
            assert((m as nat) + (n1 as nat) == n as nat);
            let i = lemma_pow_split(x, m as nat, n1 as nat, w);
            let u = w.subrange(0, i);
            let v = w.subrange(i, w.len() as int);
            lemma_loop_is_in_loop(lx, xr, u);
            assert(wit(m) && lr_has(xr, m) && pow(x, m as nat, u));
            lemma_pow_of_loop(lx, xr, y1, v);
            assert(wit(n1));
            assert(pow_sum(x, xr, y1, v));
            assert(wit(i));
        }
    }
}

// (x^[xr])^[range] = x^[mul] when the product is exact
pub proof fn lemma_loop_of_loop(lx: RegLan, xr: LoopRange, range: LoopRange, prod: LoopRange, w: Seq<u32>)
    requires forall|n: int| lr_has(prod, n) == in_mul_interval(xr, range, n),
        forall|n: int| in_mul_interval(xr, range, n) == in_loop_of_loop(xr, range, n),
    ensures in_loop(BaseRegLan::Loop(lx, xr), range, w) == in_loop(lx.expr, prod, w),
{
    let kl = BaseRegLan::Loop(lx, xr);
    let x = lx.expr;
    if in_loop(kl, range, w) {
        let y = choose|y: int| #![trigger wit(y)] 0 <= y && wit(y) && lr_has(range, y) && pow(kl, y as nat, w);
        lemma_pow_of_loop(lx, xr, y as nat, w);
        let n = choose|n: int| #![trigger wit(n)] 0 <= n && wit(n) && ksum(xr, y as nat, n) && pow(x, n as nat, w);
        assert(in_loop_of_loop(xr, range, n));
        assert(in_mul_interval(xr, range, n));
        assert(wit(n) && lr_has(prod, n));
    }
    if in_loop(x, prod, w) {
        let n = choose|n: int| #![trigger wit(n)] 0 <= n && wit(n) && lr_has(prod, n) && pow(x, n as nat, w);
        assert(in_mul_interval(xr, range, n));
        assert(in_loop_of_loop(xr, range, n));
        let y = choose|y: int| 0 <= y && lr_has(range, y) && #[trigger] ksum(xr, y as nat, n);
        lemma_pow_of_loop(lx, xr, y as nat, w);
        assert(wit(n));
        assert(pow_sum(x, xr, y as nat, w));
        assert(wit(y));
    }
}

pub proof fn lemma_loop_opt(a: BaseRegLan, r: LoopRange, w: Seq<u32>)
    requires r.0 == 0, r.1 == Some(1u32),
    ensures in_loop(a, r, w) == (w.len() == 0 || lang_k(a, w)),
{
    lemma_pow_one(a, w);
    if w.len() == 0 { assert(wit(0) && lr_has(r, 0)); }
    if lang_k(a, w) { assert(wit(1) && lr_has(r, 1)); }
    if in_loop(a, r, w) {
        let n = choose|n: int| #![trigger wit(n)] 0 <= n && wit(n) && lr_has(r, n) && pow(a, n as nat, w);
        assert(n == 0 || n == 1);
    }
}

pub proof fn lemma_loop_point(a: BaseRegLan, r: LoopRange, k: nat, w: Seq<u32>)
    requires r.0 == k, r.1 == Some(r.0),
    ensures in_loop(a, r, w) == pow(a, k, w),
{
    if pow(a, k, w) { assert(wit(k as int) && lr_has(r, k as int)); }
    if in_loop(a, r, w) {
        let n = choose|n: int| #![trigger wit(n)] 0 <= n && wit(n) && lr_has(r, n) && pow(a, n as nat, w);
        assert(n == k);
    }
}

pub proof fn lemma_mul_nonzero(r: LoopRange, s: LoopRange, prod: LoopRange)
    requires lr_wf(r), lr_wf(s), !lr_is_zero(r), !lr_is_zero(s), forall|n: int| lr_has(prod, n) == in_mul_interval(r, s, n),
    ensures !lr_is_zero(prod),
{
    let lo = lr_mul_lo(r, s);
    assert(lo >= 0) by (nonlinear_arith) requires lo == r.0 * s.0, r.0 >= 0, s.0 >= 0;
    if r.1.is_none() || s.1.is_none() {
        assert(in_mul_interval(r, s, lo + 1));
        assert(lr_has(prod, lo + 1));
    } else {
        let b = r.1.unwrap() as int;
        let d = s.1.unwrap() as int;
        assert(b >= 1 && d >= 1);
        assert(b * d >= 1) by (nonlinear_arith) requires b >= 1, d >= 1;
        assert(lo <= b * d) by (nonlinear_arith) requires lo == r.0 * s.0, 0 <= r.0 <= b, 0 <= s.0 <= d;
        assert(in_mul_interval(r, s, b * d));
        assert(lr_has(prod, b * d));
    }
}
