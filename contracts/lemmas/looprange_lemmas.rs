pub proof fn lemma_includes(a: LoopRange, b: LoopRange)
    requires lr_wf(a), lr_wf(b),
    ensures
        (forall|n: int| lr_has(b, n) ==> lr_has(a, n)) == (
            if a.1.is_none() { a.0 <= b.0 }
            else if b.1.is_some() { a.0 <= b.0 && b.1.unwrap() <= a.1.unwrap() }
            else { false }),
{
    if forall|n: int| lr_has(b, n) ==> lr_has(a, n) {
        assert(lr_has(b, b.0 as int));
        if b.1.is_some() {
            assert(lr_has(b, b.1.unwrap() as int));
        } else if a.1.is_some() {
            let big = if a.1.unwrap() >= b.0 { a.1.unwrap() + 1 } else { b.0 as int };
            assert(lr_has(b, big));
        }
    }
}

pub open spec fn in_sum_interval(a: LoopRange, b: LoopRange, n: int) -> bool {
    a.0 + b.0 <= n && (a.1.is_some() && b.1.is_some() ==> n <= a.1.unwrap() + b.1.unwrap())
}

pub proof fn lemma_sumset(a: LoopRange, b: LoopRange)
    requires lr_wf(a), lr_wf(b),
    ensures forall|n: int| #![trigger in_sum_interval(a, b, n)] #![trigger in_sumset(a, b, n)] in_sum_interval(a, b, n) == in_sumset(a, b, n),
{
    assert forall|n: int| #[trigger] in_sum_interval(a, b, n) implies in_sumset(a, b, n) by {
        // give b as little as possible, the rest to a, unless a is capped
        let x = if a.1.is_some() && n - b.0 > a.1.unwrap() { a.1.unwrap() as int } else { n - b.0 };
        let y = n - x;
        assert(lr_has(a, x) && lr_has(b, y) && x + y == n);
    }
}

pub proof fn lemma_mul_commutes(x: int, y: int)
    ensures x * y == y * x,
{
    assert(x * y == y * x) by (nonlinear_arith);
}

pub proof fn lemma_mul_mono(a: int, b: int, k: int)
    requires a <= b, k >= 0,
    ensures k * a <= k * b, a * k <= b * k,
{
    assert(k * a <= k * b) by (nonlinear_arith) requires a <= b, k >= 0;
    assert(a * k <= b * k) by (nonlinear_arith) requires a <= b, k >= 0;
}

pub proof fn lemma_mul_step(k: int, a: int)
    ensures (k + 1) * a == k * a + a, (k - 1) * a == k * a - a,
{
    assert((k + 1) * a == k * a + a) by (nonlinear_arith);
    assert((k - 1) * a == k * a - a) by (nonlinear_arith);
}

// the k-fold sum of [a,b] is [k*a, k*b] (and {0} for k = 0, also when b is infinite)
pub open spec fn in_scaled(r: LoopRange, k: int, n: int) -> bool {
    if k == 0 { n == 0 } else { k * r.0 <= n && (r.1.is_some() ==> n <= k * r.1.unwrap()) }
}

pub proof fn lemma_ksum_interval(r: LoopRange, k: nat, n: int)
    requires lr_wf(r),
    ensures ksum(r, k, n) == in_scaled(r, k as int, n),
    decreases k,
{
    let a = r.0 as int;
    if k == 0 {
    } else {
        let k1 = (k - 1) as nat;
        let ki = k as int;
        let k1i = k1 as int;
        assert(ki * a == k1i * a + a) by (nonlinear_arith) requires ki == k1i + 1;
        assert(0 * a == 0) by (nonlinear_arith);
        if r.1.is_some() {
            let b = r.1.unwrap() as int;
            assert(ki * b == k1i * b + b) by (nonlinear_arith) requires ki == k1i + 1;
            assert(k1i * a <= k1i * b) by (nonlinear_arith) requires a <= b, k1i >= 0;
            assert(0 * b == 0) by (nonlinear_arith);
        }
        if ksum(r, k, n) {
            let m = choose|m: int| #[trigger] wit(m) && ksum(r, k1, m) && lr_has(r, n - m);
            lemma_ksum_interval(r, k1, m);
            assert(in_scaled(r, k as int, n));
        }
        if in_scaled(r, k as int, n) {
            let x = if r.1.is_some() {
                let b = r.1.unwrap() as int;
                if a >= n - k1 * b { a } else { n - k1 * b }
            } else {
                n - k1 * a
            };
            let m = n - x;
            lemma_ksum_interval(r, k1, m);
            assert(lr_has(r, x));
            assert(in_scaled(r, k1 as int, m));
            assert(wit(m) && ksum(r, k1, m) && lr_has(r, n - m));
            assert(ksum(r, k, n));
        }
    }
}

pub proof fn lemma_mul_contains_products(r: LoopRange, s: LoopRange)
    requires lr_wf(r), lr_wf(s),
    ensures forall|x: int, y: int| lr_has(r, x) && lr_has(s, y) ==> in_mul_interval(r, s, #[trigger] (x * y)),
{
    assert forall|x: int, y: int| lr_has(r, x) && lr_has(s, y) implies in_mul_interval(r, s, #[trigger] (x * y)) by {
        let a = r.0 as int;
        let c = s.0 as int;
        if lr_is_zero(r) {
            assert(x == 0);
            assert(0 * y == 0) by (nonlinear_arith);
        } else if lr_is_zero(s) {
            assert(y == 0);
            assert(x * 0 == 0) by (nonlinear_arith);
        } else {
            assert(a * c <= x * y) by (nonlinear_arith) requires 0 <= a <= x, 0 <= c <= y;
            if r.1.is_some() && s.1.is_some() {
                let b = r.1.unwrap() as int;
                let d = s.1.unwrap() as int;
                assert(x * y <= b * d) by (nonlinear_arith) requires 0 <= x <= b, 0 <= y <= d;
            }
        }
    }
}

pub open spec fn kform(r: LoopRange, s: LoopRange, n: int) -> bool {
    exists|y: int| 0 <= y && lr_has(s, y) && #[trigger] in_scaled(r, y, n)
}

pub proof fn lemma_kform(r: LoopRange, s: LoopRange, n: int)
    requires lr_wf(r),
    ensures in_loop_of_loop(r, s, n) == kform(r, s, n),
{
    if in_loop_of_loop(r, s, n) {
        let y = choose|y: int| 0 <= y && lr_has(s, y) && #[trigger] ksum(r, y as nat, n);
        lemma_ksum_interval(r, y as nat, n);
        assert(in_scaled(r, y, n));
    }
    if kform(r, s, n) {
        let y = choose|y: int| 0 <= y && lr_has(s, y) && #[trigger] in_scaled(r, y, n);
        lemma_ksum_interval(r, y as nat, n);
        assert(ksum(r, y as nat, n));
    }
}

// consecutive multiples [y*a, y*b], y = c..e, leave no gap when c*(b-a) >= a-1
pub proof fn lemma_union_cover(a: int, b: int, c: int, e: int, n: int) -> (y: int)
    requires 0 <= a <= b, 0 <= c <= e, c * (b - a) >= a - 1, c * a <= n <= e * b,
    ensures c <= y <= e, y * a <= n <= y * b,
    decreases e - c,
{
    if e == c {
        c
    } else if n <= (e - 1) * b {
        lemma_union_cover(a, b, c, e - 1, n)
    } else {
        assert((e - 1) * (b - a) >= c * (b - a)) by (nonlinear_arith) requires e - 1 >= c, b - a >= 0;
        assert((e - 1) * (b - a) == (e - 1) * b - (e - 1) * a) by (nonlinear_arith);
        assert(e * a == (e - 1) * a + a) by (nonlinear_arith);
        e
    }
}

// the criterion LoopRange::right_mul_is_exact is documented to decide
pub open spec fn exact_criterion(r: LoopRange, s: LoopRange) -> bool {
    (s.1.is_some() && s.1.unwrap() == s.0)
    || (if r.1.is_none() { s.0 > 0 || r.0 <= 1 }
        else { s.0 * (r.1.unwrap() - r.0) >= (if r.0 >= 1 { r.0 - 1 } else { 0 }) })
}

pub proof fn lemma_right_mul_exact(r: LoopRange, s: LoopRange)
    requires lr_wf(r), lr_wf(s),
    ensures (forall|n: int| in_mul_interval(r, s, n) == in_loop_of_loop(r, s, n)) == exact_criterion(r, s),
{
    let a = r.0 as int;
    let c = s.0 as int;
    assert forall|n: int| in_loop_of_loop(r, s, n) == kform(r, s, n) by { lemma_kform(r, s, n); }
    assert(0 * a == 0 && a * 0 == 0 && 1 * a == a && c * 0 == 0 && 0 * c == 0) by (nonlinear_arith);
    lemma_mul_commutes(a, c);
    if s.1.is_some() && s.1.unwrap() == s.0 {
        // s = {c}: K = c-fold sum
        if r.1.is_some() { let b = r.1.unwrap() as int; lemma_mul_commutes(b, c); assert(0 * b == 0) by (nonlinear_arith); }
        assert forall|n: int| in_mul_interval(r, s, n) == kform(r, s, n) by {
            if in_mul_interval(r, s, n) {
                assert(lr_has(s, c) && in_scaled(r, c, n));
            }
            if kform(r, s, n) {
                let y = choose|y: int| 0 <= y && lr_has(s, y) && #[trigger] in_scaled(r, y, n);
                assert(y == c);
            }
        }
    } else if r.1.is_none() {
        if c > 0 {
            assert forall|n: int| in_mul_interval(r, s, n) == kform(r, s, n) by {
                if in_mul_interval(r, s, n) {
                    assert(lr_has(s, c) && in_scaled(r, c, n));
                }
                if kform(r, s, n) {
                    let y = choose|y: int| 0 <= y && lr_has(s, y) && #[trigger] in_scaled(r, y, n);
                    lemma_mul_mono(c, y, a);
                }
            }
        } else if a <= 1 {
            assert(lr_has(s, 1));
            assert forall|n: int| in_mul_interval(r, s, n) == kform(r, s, n) by {
                if in_mul_interval(r, s, n) {
                    if n == 0 { assert(lr_has(s, 0) && in_scaled(r, 0, n)); }
                    else { assert(lr_has(s, 1) && in_scaled(r, 1, n)); }
                }
                if kform(r, s, n) {
                    let y = choose|y: int| 0 <= y && lr_has(s, y) && #[trigger] in_scaled(r, y, n);
                    if y > 0 { assert(y * a >= 0) by (nonlinear_arith) requires y > 0, a >= 0; }
                }
            }
        } else {
            // 1 is in [0, inf) but is not 0 and is below a
            assert(in_mul_interval(r, s, 1));
            if kform(r, s, 1) {
                let y = choose|y: int| 0 <= y && lr_has(s, y) && #[trigger] in_scaled(r, y, 1);
                assert(y * a >= 2) by (nonlinear_arith) requires y >= 1, a >= 2;
            }
            assert(!kform(r, s, 1));
        }
    } else {
        let b = r.1.unwrap() as int;
        lemma_mul_commutes(b, c);
        assert(0 * b == 0) by (nonlinear_arith);
        if lr_is_zero(r) {
            assert forall|n: int| in_mul_interval(r, s, n) == kform(r, s, n) by {
                if in_mul_interval(r, s, n) {
                    assert(lr_has(s, c) && in_scaled(r, c, n));
                }
                if kform(r, s, n) {
                    let y = choose|y: int| 0 <= y && lr_has(s, y) && #[trigger] in_scaled(r, y, n);
                    assert(y * 0 == 0) by (nonlinear_arith);
                }
            }
        } else {
            let g = b - a;
            assert(c * g == c * b - c * a) by (nonlinear_arith) requires g == b - a;
            lemma_mul_mono(a, b, c);
            if c * g >= (if a >= 1 { a - 1 } else { 0 }) {
                assert forall|n: int| in_mul_interval(r, s, n) == kform(r, s, n) by {
                    if in_mul_interval(r, s, n) {
                        let e = if s.1.is_some() { s.1.unwrap() as int } else if n >= c { n } else { c };
                        if s.1.is_some() { lemma_mul_commutes(b, e); } else {
                            assert(e * b >= e) by (nonlinear_arith) requires e >= 0, b >= 1;
                        }
                        let y = lemma_union_cover(a, b, c, e, n);
                        assert(lr_has(s, y));
                        assert(in_scaled(r, y, n));
                    }
                    if kform(r, s, n) {
                        let y = choose|y: int| 0 <= y && lr_has(s, y) && #[trigger] in_scaled(r, y, n);
                        lemma_mul_mono(c, y, a);
                        if s.1.is_some() {
                            let d = s.1.unwrap() as int;
                            lemma_mul_mono(y, d, b);
                        }
                    }
                }
            } else {
                // gap right after c*b
                let n = c * b + 1;
                if s.1.is_some() {
                    let d = s.1.unwrap() as int;
                    assert(b * d >= b * c + b) by (nonlinear_arith) requires d >= c + 1, b >= 1;
                }
                assert(in_mul_interval(r, s, n));
                if kform(r, s, n) {
                    let y = choose|y: int| 0 <= y && lr_has(s, y) && #[trigger] in_scaled(r, y, n);
                    if y <= c {
                        assert(y == c);
                    } else {
                        assert(y * a >= c * a + a) by (nonlinear_arith) requires y >= c + 1, a >= 0;
                    }
                }
                assert(!kform(r, s, n));
            }
        }
    }
}
