pub proof fn lemma_quot_by_refl(k: BaseRegLan)
    ensures quot_by(k, k, eps()),
{
    reveal(quot_by);
    assert forall|w: Seq<u32>| #[trigger] qb_at(k, k, eps(), w) by { assert(eps() + w =~= w); }
}

pub proof fn lemma_quot_by_step(d2: RegLan, d: RegLan, k: BaseRegLan, u: Seq<u32>, c: u32)
    requires quot_by(d.expr, k, u), is_deriv(d2, d, c),
    ensures quot_by(d2.expr, k, u + seq![c]), lang_k(d2.expr, eps()) == lang_k(k, u + seq![c]),
{
    reveal(quot_by);
    assert forall|w: Seq<u32>| #[trigger] qb_at(d2.expr, k, u + seq![c], w) by {
        assert(lang_k(d2.expr, w) == quot(d.expr, c, w));
        assert(qb_at(d.expr, k, u, seq![c] + w));
        assert(u + (seq![c] + w) =~= (u + seq![c]) + w);
    }
    assert(qb_at(d2.expr, k, u + seq![c], eps()));
    assert((u + seq![c]) + eps() =~= u + seq![c]);
}

pub proof fn lemma_quot_by_empty(d: BaseRegLan, k: BaseRegLan, u: Seq<u32>, w: Seq<u32>)
    requires quot_by(d, k, u), d is Empty,
    ensures !lang_k(k, u + w),
{
    reveal(quot_by);
    assert(qb_at(d, k, u, w));
}
