// filtering out the transitions to target d keeps the caller's delta when d becomes/is the default
pub open spec fn tr_filter(ts: Seq<(CharSet, usize)>, d: usize) -> Seq<(CharSet, usize)> {
    ts.filter(|x: (CharSet, usize)| x.1 != d)
}

pub proof fn lemma_filter_props(ts: Seq<(CharSet, usize)>, d: usize)
    ensures
        forall|k: int| 0 <= k < tr_filter(ts, d).len() ==> (#[trigger] tr_filter(ts, d)[k]).1 != d && ts.contains(tr_filter(ts, d)[k]),
        forall|k: int| 0 <= k < ts.len() && (#[trigger] ts[k]).1 != d ==> tr_filter(ts, d).contains(ts[k]),
        tr_filter(ts, d).len() <= ts.len(),
    decreases ts.len(),
{
    reveal(Seq::filter);
    let f = |x: (CharSet, usize)| x.1 != d;
    if ts.len() == 0 {
    } else {
        let pre = ts.drop_last();
        lemma_filter_props(pre, d);
        let fp = tr_filter(pre, d);
        let last = ts.last();
        assert(tr_filter(ts, d) == if f(last) { fp.push(last) } else { fp });
        assert forall|k: int| 0 <= k < tr_filter(ts, d).len() implies (#[trigger] tr_filter(ts, d)[k]).1 != d && ts.contains(tr_filter(ts, d)[k]) by {
            if k < fp.len() {
                let x = fp[k];
                assert(pre.contains(x));
                let j = choose|j: int| 0 <= j < pre.len() && pre[j] == x;
                assert(ts[j] == x);
            } else {
                assert(ts[ts.len() - 1] == last);
            }
        }
        assert forall|k: int| 0 <= k < ts.len() && (#[trigger] ts[k]).1 != d implies tr_filter(ts, d).contains(ts[k]) by {
            if k < pre.len() {
                assert(pre[k] == ts[k]);
                assert(fp.contains(ts[k]));
                let j = choose|j: int| 0 <= j < fp.len() && fp[j] == ts[k];
                assert(tr_filter(ts, d)[j] == ts[k]);
            } else {
                assert(tr_filter(ts, d)[fp.len() as int] == last);
            }
        }
    }
}

// well-formed, pairwise disjoint labels are kept by filtering
pub proof fn lemma_filter_keeps(ts: Seq<(CharSet, usize)>, d: usize)
    requires tr_labels_wf(ts), tr_disjoint(ts),
    ensures tr_labels_wf(tr_filter(ts, d)), tr_disjoint(tr_filter(ts, d)),
    decreases ts.len(),
{
    reveal(Seq::filter);
    let f = |x: (CharSet, usize)| x.1 != d;
    if ts.len() > 0 {
        let pre = ts.drop_last();
        assert forall|i: int, j: int| 0 <= i < j < pre.len() implies cs_disjoint((#[trigger] pre[i]).0, (#[trigger] pre[j]).0) by {
            assert(pre[i] == ts[i] && pre[j] == ts[j]);
        }
        assert forall|i: int| 0 <= i < pre.len() implies cs_wf((#[trigger] pre[i]).0) by { assert(pre[i] == ts[i]); }
        lemma_filter_keeps(pre, d);
        lemma_filter_props(pre, d);
        let fp = tr_filter(pre, d);
        let last = ts.last();
        let ft = tr_filter(ts, d);
        assert(ft == if f(last) { fp.push(last) } else { fp });
        if f(last) {
            assert forall|i: int, j: int| 0 <= i < j < ft.len() implies cs_disjoint((#[trigger] ft[i]).0, (#[trigger] ft[j]).0) by {
                if j < fp.len() {
                    assert(ft[i] == fp[i] && ft[j] == fp[j]);
                } else {
                    assert(ft[i] == fp[i]);
                    assert(pre.contains(fp[i]));
                    let k = choose|k: int| 0 <= k < pre.len() && pre[k] == fp[i];
                    assert(ts[k] == fp[i]);
                    assert(cs_disjoint(ts[k].0, ts[ts.len() - 1].0));
                }
            }
            assert forall|i: int| 0 <= i < ft.len() implies cs_wf((#[trigger] ft[i]).0) by {
                if i < fp.len() { assert(ft[i] == fp[i]); } else { assert(ft[i] == ts[ts.len() - 1]); }
            }
        }
    }
}

// with disjoint labels: removing the transitions to d and making d the default does not change
// the successor of any character that had one
pub proof fn lemma_filter_delta(ts: Seq<(CharSet, usize)>, d0: Option<usize>, d: usize)
    requires tr_labels_wf(ts), tr_disjoint(ts),
        d0 == Some(d) || (d0.is_none() && forall|c: int| 0 <= c <= MAX_CHAR ==> tr_covered(ts, c)),
    ensures
        forall|c: int, y: int| 0 <= c <= MAX_CHAR ==> tr_maps(tr_filter(ts, d), Some(d), c, y) == #[trigger] tr_maps(ts, d0, c, y),
{
    lemma_filter_props(ts, d);
    let ft = tr_filter(ts, d);
    assert forall|c: int, y: int| 0 <= c <= MAX_CHAR implies tr_maps(ft, Some(d), c, y) == #[trigger] tr_maps(ts, d0, c, y) by {
        // covered by the filtered list => covered by the same transition in ts
        if tr_covered(ft, c) {
            let k = choose|k: int| 0 <= k < ft.len() && cs_has((#[trigger] ft[k]).0, c);
            assert(ts.contains(ft[k]));
            let j = choose|j: int| 0 <= j < ts.len() && ts[j] == ft[k];
            assert(cs_has(ts[j].0, c));
            // any transition of ts covering c is that one (disjoint labels)
            assert forall|i: int| 0 <= i < ts.len() && cs_has((#[trigger] ts[i]).0, c) implies i == j by {
                if i < j { assert(cs_disjoint(ts[i].0, ts[j].0)); }
                if j < i { assert(cs_disjoint(ts[j].0, ts[i].0)); }
            }
            assert forall|i: int| 0 <= i < ft.len() && cs_has((#[trigger] ft[i]).0, c) implies ft[i] == ft[k] by {
                assert(ts.contains(ft[i]));
                let j2 = choose|j2: int| 0 <= j2 < ts.len() && ts[j2] == ft[i];
                assert(cs_has(ts[j2].0, c));
            }
            if tr_maps(ts, d0, c, y) { assert(ts[j].1 == y); assert(ft[k].1 == y); }
            if tr_maps(ft, Some(d), c, y) { assert(ft[k].1 == y); assert(ts[j].1 == y); }
        } else {
            // not covered after filtering: either uncovered before, or covered by a transition to d
            if tr_covered(ts, c) {
                let j = choose|j: int| 0 <= j < ts.len() && cs_has((#[trigger] ts[j]).0, c);
                if ts[j].1 != d {
                    assert(ft.contains(ts[j]));
                    let k = choose|k: int| 0 <= k < ft.len() && ft[k] == ts[j];
                    assert(cs_has(ft[k].0, c));
                }
                assert forall|i: int| 0 <= i < ts.len() && cs_has((#[trigger] ts[i]).0, c) implies i == j by {
                    if i < j { assert(cs_disjoint(ts[i].0, ts[j].0)); }
                    if j < i { assert(cs_disjoint(ts[j].0, ts[i].0)); }
                }
                if tr_maps(ts, d0, c, y) { assert(y == d); }
                if y == d { assert(cs_has(ts[j].0, c) && ts[j].1 == y); }
            } else {
                // uncovered before: d0 must be Some(d)
            }
            assert forall|i: int| 0 <= i < ft.len() implies !cs_has((#[trigger] ft[i]).0, c) by {}
        }
    }
}

pub open spec fn tr_labels(ts: Seq<(CharSet, usize)>) -> Seq<CharSet> {
    Seq::new(ts.len(), |i: int| ts[i].0)
}

pub proof fn lemma_labels_disjoint(ts: Seq<(CharSet, usize)>)
    ensures cl_pairwise_disjoint(tr_labels(ts)) == tr_disjoint(ts),
        tr_labels_wf(ts) ==> (forall|i: int| 0 <= i < tr_labels(ts).len() ==> cs_wf(#[trigger] tr_labels(ts)[i])),
{
    let l = tr_labels(ts);
    if tr_disjoint(ts) {
        assert forall|i: int, j: int| 0 <= i < j < l.len() implies cs_disjoint(#[trigger] l[i], #[trigger] l[j]) by {
            assert(cs_disjoint(ts[i].0, ts[j].0));
        }
    }
    if cl_pairwise_disjoint(l) {
        assert forall|i: int, j: int| 0 <= i < j < ts.len() implies cs_disjoint((#[trigger] ts[i]).0, (#[trigger] ts[j]).0) by {
            assert(cs_disjoint(l[i], l[j]));
        }
    }
}

pub open spec fn label_in(l: Seq<CharSet>, c: CharSet) -> bool {
    exists|i: int| 0 <= i < l.len() && #[trigger] l[i] == c
}

pub open spec fn label_of(ts: Seq<(CharSet, usize)>, c: CharSet) -> bool {
    exists|k: int| 0 <= k < ts.len() && (#[trigger] ts[k]).0 == c
}

// membership in a rearrangement of the labels = being covered by a label
pub proof fn lemma_rearr_cover(l: Seq<CharSet>, ts: Seq<(CharSet, usize)>)
    requires is_rearrangement(l, tr_labels(ts)),
    ensures forall|c: int| #![trigger cl_in(l, c)] #![trigger tr_covered(ts, c)] cl_in(l, c) == tr_covered(ts, c),
        l.len() == ts.len(),
        forall|k: int| 0 <= k < ts.len() ==> label_in(l, (#[trigger] ts[k]).0),
        forall|i: int| 0 <= i < l.len() ==> label_of(ts, #[trigger] l[i]),
{
    let lab = tr_labels(ts);
    let (perm, inv) = choose|perm: Seq<int>, inv: Seq<int>| rearranged(l, lab, perm, inv);
    assert forall|c: int| #![trigger cl_in(l, c)] #![trigger tr_covered(ts, c)] cl_in(l, c) == tr_covered(ts, c) by {
        if cl_in(l, c) {
            let i = choose|i: int| 0 <= i < l.len() && cs_has(#[trigger] l[i], c);
            assert(l[i] == lab[perm[i]]);
            assert(cs_has(ts[perm[i]].0, c));
        }
        if tr_covered(ts, c) {
            let k = choose|k: int| 0 <= k < ts.len() && cs_has((#[trigger] ts[k]).0, c);
            assert(perm[inv[k]] == k);
            assert(l[inv[k]] == lab[perm[inv[k]]]);
            assert(cs_has(l[inv[k]], c));
        }
    }
    assert forall|k: int| 0 <= k < ts.len() implies label_in(l, (#[trigger] ts[k]).0) by {
        assert(perm[inv[k]] == k);
        assert(l[inv[k]] == lab[perm[inv[k]]]);
    }
    assert forall|i: int| 0 <= i < l.len() implies label_of(ts, #[trigger] l[i]) by {
        assert(l[i] == lab[perm[i]]);
        assert(ts[perm[i]].0 == l[i]);
    }
}

// succ is the successor array make_successor builds for partition l
pub open spec fn succ_ok(succ: Seq<usize>, l: Seq<CharSet>, ts: Seq<(CharSet, usize)>) -> bool {
    &&& succ.len() == l.len()
    &&& forall|i: int, k: int| 0 <= i < l.len() && 0 <= k < ts.len() && #[trigger] l[i] == (#[trigger] ts[k]).0 ==> succ[i] == ts[k].1
}

// the state built from (l, succ, d) has the caller's transition function
pub proof fn lemma_state_delta(l: Seq<CharSet>, succ: Seq<usize>, ts: Seq<(CharSet, usize)>, d: Option<usize>, c: int, y: int)
    requires cp_sorted(l), is_rearrangement(l, tr_labels(ts)), succ_ok(succ, l, ts), tr_labels_wf(ts), tr_disjoint(ts),
    ensures ((exists|i: int| 0 <= i < l.len() && cs_has(#[trigger] l[i], c) && succ[i] == y)
            || (!cl_in(l, c) && d == Some(y as usize) && 0 <= y <= usize::MAX)) == tr_maps(ts, d, c, y),
{
    lemma_rearr_cover(l, ts);
    if exists|i: int| 0 <= i < l.len() && cs_has(#[trigger] l[i], c) && succ[i] == y {
        let i = choose|i: int| 0 <= i < l.len() && cs_has(#[trigger] l[i], c) && succ[i] == y;
        assert(label_of(ts, l[i]));
        let k = choose|k: int| 0 <= k < ts.len() && (#[trigger] ts[k]).0 == l[i];
        assert(cs_has(ts[k].0, c) && ts[k].1 == y);
    }
    if exists|k: int| 0 <= k < ts.len() && cs_has((#[trigger] ts[k]).0, c) && ts[k].1 == y {
        let k = choose|k: int| 0 <= k < ts.len() && cs_has((#[trigger] ts[k]).0, c) && ts[k].1 == y;
        assert(label_in(l, ts[k].0));
        let i = choose|i: int| 0 <= i < l.len() && #[trigger] l[i] == ts[k].0;
        assert(cs_has(l[i], c) && succ[i] == y);
    }
    assert(cl_in(l, c) == tr_covered(ts, c));
}

pub open spec fn target_of(ts: Seq<(CharSet, usize)>, y: usize) -> bool {
    exists|k: int| 0 <= k < ts.len() && (#[trigger] ts[k]).1 == y
}

pub proof fn lemma_count_prefix(s: Seq<State>, x: State, k: int)
    requires 0 <= k <= s.len(),
    ensures count_final(s.push(x), k) == count_final(s, k),
    decreases k,
{
    if k > 0 {
        lemma_count_prefix(s, x, k - 1);
        assert(s.push(x)[k - 1] == s[k - 1]);
    }
}

pub proof fn lemma_count_push(s: Seq<State>, x: State)
    ensures count_final(s.push(x), s.len() as int + 1) == count_final(s, s.len() as int) + (if x.is_final { 1int } else { 0int }),
        0 <= count_final(s, s.len() as int) <= s.len(),
    decreases s.len(),
{
    lemma_count_prefix(s, x, s.len() as int);
    assert(s.push(x)[s.len() as int] == x);
    lemma_count_bound(s, s.len() as int);
}

pub proof fn lemma_count_bound(s: Seq<State>, k: int)
    requires 0 <= k <= s.len(),
    ensures 0 <= count_final(s, k) <= k,
    decreases k,
{
    if k > 0 { lemma_count_bound(s, k - 1); }
}
