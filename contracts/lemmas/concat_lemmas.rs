// ---- language algebra for concatenation and powers ----
// w is in L(ka) . L(kb)
pub open spec fn in_cat(ka: BaseRegLan, kb: BaseRegLan, w: Seq<u32>) -> bool {
    exists|i: int| #![trigger wit(i)] 0 <= i <= w.len() && wit(i) && lang_k(ka, w.subrange(0, i)) && lang_k(kb, w.subrange(i, w.len() as int))
}

// w is in the union of L(a)^n for n in r
pub open spec fn in_loop(a: BaseRegLan, r: LoopRange, w: Seq<u32>) -> bool {
    exists|n: int| #![trigger wit(n)] 0 <= n && wit(n) && lr_has(r, n) && pow(a, n as nat, w)
}

pub proof fn lemma_concat_is_cat(a: RegLan, b: RegLan, w: Seq<u32>)
    ensures lang_k(BaseRegLan::Concat(a, b), w) == in_cat(a.expr, b.expr, w),
{
}

pub proof fn lemma_loop_is_in_loop(a: RegLan, r: LoopRange, w: Seq<u32>)
    ensures lang_k(BaseRegLan::Loop(a, r), w) == in_loop(a.expr, r, w),
{
    lemma_loop_lang(a, r, w);
}

pub proof fn lemma_cat_intro(ka: BaseRegLan, kb: BaseRegLan, u: Seq<u32>, v: Seq<u32>)
    requires lang_k(ka, u), lang_k(kb, v),
    ensures in_cat(ka, kb, u + v),
{
    let w = u + v;
    let i = u.len() as int;
    assert(w.subrange(0, i) =~= u);
    assert(w.subrange(i, w.len() as int) =~= v);
    assert(wit(i));
}

pub proof fn lemma_pow_intro(a: BaseRegLan, n: nat, u: Seq<u32>, v: Seq<u32>)
    requires lang_k(a, u), pow(a, n, v),
    ensures pow(a, n + 1, u + v),
{
    let w = u + v;
    let i = u.len() as int;
    assert(w.subrange(0, i) =~= u);
    assert(w.subrange(i, w.len() as int) =~= v);
    assert(wit(i));
    assert(((n + 1) - 1) as nat == n);
}

pub proof fn lemma_pow_one(a: BaseRegLan, w: Seq<u32>)
    ensures pow(a, 1, w) == lang_k(a, w),
{
    if pow(a, 1, w) {
        let i = choose|i: int| #![trigger wit(i)] 0 <= i <= w.len() && wit(i) && lang_k(a, w.subrange(0, i)) && pow(a, 0, w.subrange(i, w.len() as int));
        assert(i == w.len());
        assert(w.subrange(0, i) =~= w);
    }
    if lang_k(a, w) {
        let i = w.len() as int;
        assert(w.subrange(0, i) =~= w);
        assert(w.subrange(i, w.len() as int).len() == 0);
        assert(wit(i));
        assert(pow(a, 0, w.subrange(i, w.len() as int)));
    }
}

// a^m . a^n = a^(m+n)
pub proof fn lemma_pow_add(a: BaseRegLan, m: nat, n: nat, u: Seq<u32>, v: Seq<u32>)
    requires pow(a, m, u), pow(a, n, v),
    ensures pow(a, m + n, u + v),
    decreases m,
{
    if m == 0 {
        assert(u + v =~= v);
    } else {
        let i = choose|i: int| #![trigger wit(i)] 0 <= i <= u.len() && wit(i) && lang_k(a, u.subrange(0, i)) && pow(a, (m - 1) as nat, u.subrange(i, u.len() as int));
        let u1 = u.subrange(0, i);
        let u2 = u.subrange(i, u.len() as int);
        lemma_pow_add(a, (m - 1) as nat, n, u2, v);
        lemma_pow_intro(a, ((m - 1) + n) as nat, u1, u2 + v);
        assert(u1 + (u2 + v) =~= u + v);
        assert((((m - 1) + n) + 1) as nat == m + n);
    }
}

// a^(m+n) splits into a^m . a^n
pub proof fn lemma_pow_split(a: BaseRegLan, m: nat, n: nat, w: Seq<u32>) -> (i: int)
    requires pow(a, m + n, w),
    ensures 0 <= i <= w.len(), pow(a, m, w.subrange(0, i)), pow(a, n, w.subrange(i, w.len() as int)),
    decreases m,
{
    if m == 0 {
        assert(w.subrange(0, 0).len() == 0);
        assert(w.subrange(0, w.len() as int) =~= w);
        0
    } else {
        let j = choose|j: int| #![trigger wit(j)] 0 <= j <= w.len() && wit(j) && lang_k(a, w.subrange(0, j)) && pow(a, ((m + n) - 1) as nat, w.subrange(j, w.len() as int));
        let rest = w.subrange(j, w.len() as int);
        assert(((m + n) - 1) as nat == ((m - 1) as nat) + n);
        let i2 = lemma_pow_split(a, (m - 1) as nat, n, rest);
        let i = j + i2;
        lemma_pow_intro(a, (m - 1) as nat, w.subrange(0, j), rest.subrange(0, i2));
        assert(w.subrange(0, j) + rest.subrange(0, i2) =~= w.subrange(0, i));
        assert(rest.subrange(i2, rest.len() as int) =~= w.subrange(i, w.len() as int));
        assert(((m - 1) + 1) as nat == m);
        i
    }
}

// a . a^[r] = a^[r+1]   and   a^[r] . a = a^[r+1]
pub proof fn lemma_cat_loop_left(la: RegLan, r: LoopRange, r1: LoopRange, w: Seq<u32>)
    requires forall|n: int| lr_has(r1, n) == lr_has(r, n - 1),
    ensures in_cat(la.expr, BaseRegLan::Loop(la, r), w) == in_loop(la.expr, r1, w),
{
    let a = la.expr;
    let kl = BaseRegLan::Loop(la, r);
    if in_cat(a, kl, w) {
        let i = choose|i: int| #![trigger wit(i)] 0 <= i <= w.len() && wit(i) && lang_k(a, w.subrange(0, i)) && lang_k(kl, w.subrange(i, w.len() as int));
        let v = w.subrange(i, w.len() as int);
        lemma_loop_is_in_loop(la, r, v);
        let n = choose|n: int| #![trigger wit(n)] 0 <= n && wit(n) && lr_has(r, n) && pow(a, n as nat, v);
        lemma_pow_intro(a, n as nat, w.subrange(0, i), v);
        lemma_split(w, i);
        assert(wit(n + 1) && lr_has(r1, n + 1));
    }
    if in_loop(a, r1, w) {
        let m = choose|m: int| #![trigger wit(m)] 0 <= m && wit(m) && lr_has(r1, m) && pow(a, m as nat, w);
        assert(lr_has(r, m - 1));
        assert(m >= 1);
        let i = choose|i: int| #![trigger wit(i)] 0 <= i <= w.len() && wit(i) && lang_k(a, w.subrange(0, i)) && pow(a, (m - 1) as nat, w.subrange(i, w.len() as int));
        let v = w.subrange(i, w.len() as int);
        lemma_loop_is_in_loop(la, r, v);
        assert(wit(m - 1));
        assert(in_loop(a, r, v));
        assert(wit(i));
    }
}

pub proof fn lemma_cat_loop_right(la: RegLan, r: LoopRange, r1: LoopRange, w: Seq<u32>)
    requires forall|n: int| lr_has(r1, n) == lr_has(r, n - 1),
    ensures in_cat(BaseRegLan::Loop(la, r), la.expr, w) == in_loop(la.expr, r1, w),
{
    let a = la.expr;
    let kl = BaseRegLan::Loop(la, r);
    if in_cat(kl, a, w) {
        let i = choose|i: int| #![trigger wit(i)] 0 <= i <= w.len() && wit(i) && lang_k(kl, w.subrange(0, i)) && lang_k(a, w.subrange(i, w.len() as int));
        let u = w.subrange(0, i);
        let v = w.subrange(i, w.len() as int);
        lemma_loop_is_in_loop(la, r, u);
        let n = choose|n: int| #![trigger wit(n)] 0 <= n && wit(n) && lr_has(r, n) && pow(a, n as nat, u);
        lemma_pow_one(a, v);
        lemma_pow_add(a, n as nat, 1, u, v);
        lemma_split(w, i);
        assert(wit(n + 1) && lr_has(r1, n + 1));
    }
    if in_loop(a, r1, w) {
        let m = choose|m: int| #![trigger wit(m)] 0 <= m && wit(m) && lr_has(r1, m) && pow(a, m as nat, w);
        assert(lr_has(r, m - 1));
        assert(m >= 1);
        assert(((m - 1) as nat) + 1 == m as nat);
        let i = lemma_pow_split(a, (m - 1) as nat, 1, w);
        let u = w.subrange(0, i);
        let v = w.subrange(i, w.len() as int);
        lemma_pow_one(a, v);
        lemma_loop_is_in_loop(la, r, u);
        assert(wit(m - 1));
        assert(in_loop(a, r, u));
        assert(wit(i));
    }
}

// a^[r] . a^[s] = a^[r+s]
pub proof fn lemma_cat_loop_loop(la: RegLan, r: LoopRange, s: LoopRange, rs: LoopRange, w: Seq<u32>)
    requires forall|n: int| lr_has(rs, n) == in_sumset(r, s, n), lr_wf(r), lr_wf(s),
    ensures in_cat(BaseRegLan::Loop(la, r), BaseRegLan::Loop(la, s), w) == in_loop(la.expr, rs, w),
{
    let a = la.expr;
    let k1 = BaseRegLan::Loop(la, r);
    let k2 = BaseRegLan::Loop(la, s);
    if in_cat(k1, k2, w) {
        let i = choose|i: int| #![trigger wit(i)] 0 <= i <= w.len() && wit(i) && lang_k(k1, w.subrange(0, i)) && lang_k(k2, w.subrange(i, w.len() as int));
        let u = w.subrange(0, i);
        let v = w.subrange(i, w.len() as int);
        lemma_loop_is_in_loop(la, r, u);
        lemma_loop_is_in_loop(la, s, v);
        let m = choose|m: int| #![trigger wit(m)] 0 <= m && wit(m) && lr_has(r, m) && pow(a, m as nat, u);
        let n = choose|n: int| #![trigger wit(n)] 0 <= n && wit(n) && lr_has(s, n) && pow(a, n as nat, v);
        lemma_pow_add(a, m as nat, n as nat, u, v);
        lemma_split(w, i);
        assert(lr_has(r, m) && lr_has(s, n) && m + n == m + n);
        assert(in_sumset(r, s, m + n));
        assert(wit(m + n));
    }
    if in_loop(a, rs, w) {
        let k = choose|k: int| #![trigger wit(k)] 0 <= k && wit(k) && lr_has(rs, k) && pow(a, k as nat, w);
        assert(in_sumset(r, s, k));
        let (m, n) = choose|m: int, n: int| #[trigger] lr_has(r, m) && #[trigger] lr_has(s, n) && m + n == k;
        assert(m >= 0 && n >= 0);
        assert((m as nat) + (n as nat) == k as nat);
        let i = lemma_pow_split(a, m as nat, n as nat, w);
        let u = w.subrange(0, i);
        let v = w.subrange(i, w.len() as int);
        lemma_loop_is_in_loop(la, r, u);
        lemma_loop_is_in_loop(la, s, v);
        assert(wit(m) && wit(n));
        assert(in_loop(a, r, u) && in_loop(a, s, v));
        assert(wit(i));
    }
}

// a . a = a^2
pub proof fn lemma_cat_self(a: BaseRegLan, w: Seq<u32>)
    ensures in_cat(a, a, w) == pow(a, 2, w),
{
    if in_cat(a, a, w) {
        let i = choose|i: int| #![trigger wit(i)] 0 <= i <= w.len() && wit(i) && lang_k(a, w.subrange(0, i)) && lang_k(a, w.subrange(i, w.len() as int));
        lemma_pow_one(a, w.subrange(i, w.len() as int));
        assert(wit(i));
        assert((2 - 1) as nat == 1nat);
    }
    if pow(a, 2, w) {
        let i = choose|i: int| #![trigger wit(i)] 0 <= i <= w.len() && wit(i) && lang_k(a, w.subrange(0, i)) && pow(a, (2 - 1) as nat, w.subrange(i, w.len() as int));
        lemma_pow_one(a, w.subrange(i, w.len() as int));
        assert(wit(i));
    }
}

// (x . y) . z = x . (y . z)
pub proof fn lemma_cat_assoc(x: BaseRegLan, y: BaseRegLan, z: BaseRegLan, w: Seq<u32>)
    ensures (exists|i: int| #![trigger wit(i)] 0 <= i <= w.len() && wit(i) && in_cat(x, y, w.subrange(0, i)) && lang_k(z, w.subrange(i, w.len() as int)))
         == (exists|i: int| #![trigger wit(i)] 0 <= i <= w.len() && wit(i) && lang_k(x, w.subrange(0, i)) && in_cat(y, z, w.subrange(i, w.len() as int))),
{
    if exists|i: int| #![trigger wit(i)] 0 <= i <= w.len() && wit(i) && in_cat(x, y, w.subrange(0, i)) && lang_k(z, w.subrange(i, w.len() as int)) {
        let i = choose|i: int| #![trigger wit(i)] 0 <= i <= w.len() && wit(i) && in_cat(x, y, w.subrange(0, i)) && lang_k(z, w.subrange(i, w.len() as int));
        let u = w.subrange(0, i);
        let j = choose|j: int| #![trigger wit(j)] 0 <= j <= u.len() && wit(j) && lang_k(x, u.subrange(0, j)) && lang_k(y, u.subrange(j, u.len() as int));
        let rest = w.subrange(j, w.len() as int);
        assert(u.subrange(0, j) =~= w.subrange(0, j));
        assert(rest.subrange(0, i - j) =~= u.subrange(j, u.len() as int));
        assert(rest.subrange(i - j, rest.len() as int) =~= w.subrange(i, w.len() as int));
        assert(wit(i - j));
        assert(in_cat(y, z, rest));
        assert(wit(j));
    }
    if exists|i: int| #![trigger wit(i)] 0 <= i <= w.len() && wit(i) && lang_k(x, w.subrange(0, i)) && in_cat(y, z, w.subrange(i, w.len() as int)) {
        let j = choose|j: int| #![trigger wit(j)] 0 <= j <= w.len() && wit(j) && lang_k(x, w.subrange(0, j)) && in_cat(y, z, w.subrange(j, w.len() as int));
        let rest = w.subrange(j, w.len() as int);
        let i2 = choose|i2: int| #![trigger wit(i2)] 0 <= i2 <= rest.len() && wit(i2) && lang_k(y, rest.subrange(0, i2)) && lang_k(z, rest.subrange(i2, rest.len() as int));
        let i = j + i2;
        let u = w.subrange(0, i);
        assert(u.subrange(0, j) =~= w.subrange(0, j));
        assert(u.subrange(j, u.len() as int) =~= rest.subrange(0, i2));
        assert(rest.subrange(i2, rest.len() as int) =~= w.subrange(i, w.len() as int));
        assert(wit(j));
        assert(in_cat(x, y, u));
        assert(wit(i));
    }
}


pub open spec fn shifted(r1: LoopRange, r: LoopRange) -> bool {
    forall|n: int| lr_has(r1, n) == lr_has(r, n - 1)
}

pub open spec fn is_sum(rs: LoopRange, r: LoopRange, s: LoopRange) -> bool {
    forall|n: int| lr_has(rs, n) == in_sumset(r, s, n)
}

pub proof fn lemma_cat_eps_left(ka: BaseRegLan, kb: BaseRegLan, w: Seq<u32>)
    requires ka is Epsilon,
    ensures in_cat(ka, kb, w) == lang_k(kb, w),
{
    assert(w.subrange(0, w.len() as int) =~= w);
    if lang_k(kb, w) { assert(wit(0)); assert(w.subrange(0, 0).len() == 0); }
    if in_cat(ka, kb, w) {
        let i = choose|i: int| #![trigger wit(i)] 0 <= i <= w.len() && wit(i) && lang_k(ka, w.subrange(0, i)) && lang_k(kb, w.subrange(i, w.len() as int));
        assert(i == 0);
    }
}

pub proof fn lemma_cat_eps_right(ka: BaseRegLan, kb: BaseRegLan, w: Seq<u32>)
    requires kb is Epsilon,
    ensures in_cat(ka, kb, w) == lang_k(ka, w),
{
    let n = w.len() as int;
    assert(w.subrange(0, n) =~= w);
    if lang_k(ka, w) { assert(wit(n)); assert(w.subrange(n, n).len() == 0); }
    if in_cat(ka, kb, w) {
        let i = choose|i: int| #![trigger wit(i)] 0 <= i <= w.len() && wit(i) && lang_k(ka, w.subrange(0, i)) && lang_k(kb, w.subrange(i, w.len() as int));
        assert(i == n);
    }
}

// S . Sigma* = Sigma* when S contains the empty word (kb denotes every word)
pub proof fn lemma_cat_nullable_full(ka: BaseRegLan, kb: BaseRegLan, w: Seq<u32>)
    requires lang_k(ka, eps()), forall|v: Seq<u32>| #[trigger] lang_k(kb, v) == word_ok(v),
    ensures in_cat(ka, kb, w) == word_ok(w),
{
    if word_ok(w) {
        assert(w.subrange(0, 0) =~= eps());
        assert(w.subrange(0, w.len() as int) =~= w);
        assert(wit(0));
    }
    if in_cat(ka, kb, w) {
        let i = choose|i: int| #![trigger wit(i)] 0 <= i <= w.len() && wit(i) && lang_k(ka, w.subrange(0, i)) && lang_k(kb, w.subrange(i, w.len() as int));
        lemma_lang_word_ok(ka, w.subrange(0, i));
        lemma_word_ok_concat(w.subrange(0, i), w.subrange(i, w.len() as int));
        lemma_split(w, i);
    }
}

// (x . y) . z  against  x . r  where r denotes y . z
pub proof fn lemma_cat_assoc_via(x: RegLan, y: RegLan, z: BaseRegLan, r: BaseRegLan, w: Seq<u32>)
    requires forall|v: Seq<u32>| #[trigger] lang_k(r, v) == in_cat(y.expr, z, v),
    ensures in_cat(BaseRegLan::Concat(x, y), z, w) == in_cat(x.expr, r, w),
{
    lemma_cat_assoc(x.expr, y.expr, z, w);
    let kxy = BaseRegLan::Concat(x, y);
    if in_cat(kxy, z, w) {
        let i = choose|i: int| #![trigger wit(i)] 0 <= i <= w.len() && wit(i) && lang_k(kxy, w.subrange(0, i)) && lang_k(z, w.subrange(i, w.len() as int));
        assert(wit(i) && in_cat(x.expr, y.expr, w.subrange(0, i)));
        let j = choose|j: int| #![trigger wit(j)] 0 <= j <= w.len() && wit(j) && lang_k(x.expr, w.subrange(0, j)) && in_cat(y.expr, z, w.subrange(j, w.len() as int));
        assert(lang_k(r, w.subrange(j, w.len() as int)));
        assert(wit(j));
    }
    if in_cat(x.expr, r, w) {
        let j = choose|j: int| #![trigger wit(j)] 0 <= j <= w.len() && wit(j) && lang_k(x.expr, w.subrange(0, j)) && lang_k(r, w.subrange(j, w.len() as int));
        assert(wit(j) && in_cat(y.expr, z, w.subrange(j, w.len() as int)));
        let i = choose|i: int| #![trigger wit(i)] 0 <= i <= w.len() && wit(i) && in_cat(x.expr, y.expr, w.subrange(0, i)) && lang_k(z, w.subrange(i, w.len() as int));
        assert(lang_k(kxy, w.subrange(0, i)));
        assert(wit(i));
    }
}

pub proof fn lemma_point2(a: BaseRegLan, r: LoopRange, w: Seq<u32>)
    requires r.0 == 2, r.1 == Some(2u32),
    ensures in_loop(a, r, w) == in_cat(a, a, w),
{
    lemma_cat_self(a, w);
    if pow(a, 2, w) { assert(wit(2) && lr_has(r, 2)); }
    if in_loop(a, r, w) {
        let n = choose|n: int| #![trigger wit(n)] 0 <= n && wit(n) && lr_has(r, n) && pow(a, n as nat, w);
        assert(n == 2);
    }
}

// prefixing a one-word language by a character
pub proof fn lemma_cat_char_word(kc: BaseRegLan, c: u32, k: BaseRegLan, t: Seq<u32>, w: Seq<u32>)
    requires forall|v: Seq<u32>| #[trigger] lang_k(kc, v) == (v.len() == 1 && v[0] == c),
        forall|v: Seq<u32>| #[trigger] lang_k(k, v) == (v == t),
    ensures in_cat(kc, k, w) == (w == seq![c] + t),
{
    if in_cat(kc, k, w) {
        let i = choose|i: int| #![trigger wit(i)] 0 <= i <= w.len() && wit(i) && lang_k(kc, w.subrange(0, i)) && lang_k(k, w.subrange(i, w.len() as int));
        lemma_split(w, i);
        assert(w.subrange(0, i) =~= seq![c]);
    }
    if w == seq![c] + t {
        assert(w.subrange(0, 1) =~= seq![c]);
        assert(w.subrange(1, w.len() as int) =~= t);
        assert(wit(1));
    }
}
