// pigeonhole: a sequence of distinct numbers below m has at most m entries
pub proof fn lemma_pigeonhole(s: Seq<int>, m: int)
    requires m >= 0,
        forall|k: int| 0 <= k < s.len() ==> 0 <= #[trigger] s[k] < m,
        forall|k1: int, k2: int| 0 <= k1 < s.len() && 0 <= k2 < s.len() && k1 != k2 ==> s[k1] != s[k2],
    ensures s.len() <= m,
    decreases m,
{
    if m == 0 {
        if s.len() > 0 { let v = s[0]; assert(0 <= v && v < m); }
    } else {
        if exists|k: int| 0 <= k < s.len() && s[k] == m - 1 {
            let k = choose|k: int| 0 <= k < s.len() && s[k] == m - 1;
            let t = s.remove(k);
            assert forall|j: int| 0 <= j < t.len() implies 0 <= #[trigger] t[j] < m - 1 by {
                if j < k { assert(t[j] == s[j]); } else { assert(t[j] == s[j + 1]); }
            }
            assert forall|j1: int, j2: int| 0 <= j1 < t.len() && 0 <= j2 < t.len() && j1 != j2 implies t[j1] != t[j2] by {
                let i1 = if j1 < k { j1 } else { j1 + 1 };
                let i2 = if j2 < k { j2 } else { j2 + 1 };
                assert(t[j1] == s[i1] && t[j2] == s[i2]);
            }
            lemma_pigeonhole(t, m - 1);
        } else {
            assert forall|j: int| 0 <= j < s.len() implies 0 <= #[trigger] s[j] < m - 1 by {}
            lemma_pigeonhole(s, m - 1);
        }
    }
}
