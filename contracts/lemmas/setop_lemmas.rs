// ---- intersections and unions of lists of terms ----
pub open spec fn inter_all(v: Seq<RegLan>, w: Seq<u32>) -> bool {
    word_ok(w) && (forall|i: int| #![trigger wit(i)] 0 <= i < v.len() && wit(i) ==> lang_k(v[i].expr, w))
}

// w is in none of the first n languages of a
pub open spec fn none_of(a: Seq<RegLan>, n: int, w: Seq<u32>) -> bool {
    forall|i: int| #![trigger wit(i)] 0 <= i < n && wit(i) ==> !lang_k(a[i].expr, w)
}

pub open spec fn union_all(v: Seq<RegLan>, w: Seq<u32>) -> bool {
    exists|i: int| #![trigger wit(i)] 0 <= i < v.len() && wit(i) && lang_k(v[i].expr, w)
}

pub open spec fn all_terms_of(t: Seq<RegLan>, v: Seq<RegLan>) -> bool {
    forall|i: int| 0 <= i < v.len() ==> term_of(t, #[trigger] v[i])
}

pub open spec fn sorted_by_id(v: Seq<RegLan>) -> bool {
    forall|i: int, j: int| 0 <= i < j < v.len() ==> (#[trigger] v[i]).id < (#[trigger] v[j]).id
}

// x occurs in v (terms are identified by their ids)
pub open spec fn has_id(v: Seq<RegLan>, id: usize) -> bool {
    exists|i: int| 0 <= i < v.len() && (#[trigger] v[i]).id == id
}

pub proof fn lemma_inter_push(v: Seq<RegLan>, x: RegLan, w: Seq<u32>)
    ensures inter_all(v.push(x), w) == (inter_all(v, w) && lang_k(x.expr, w)),
{
    let v2 = v.push(x);
    if inter_all(v2, w) {
        assert(wit(v.len() as int) && v2[v.len() as int] == x);
        assert forall|i: int| #![trigger wit(i)] 0 <= i < v.len() && wit(i) implies lang_k(v[i].expr, w) by { assert(v2[i] == v[i]); }
    }
    if inter_all(v, w) && lang_k(x.expr, w) {
        assert forall|i: int| #![trigger wit(i)] 0 <= i < v2.len() && wit(i) implies lang_k(v2[i].expr, w) by {
            if i < v.len() { assert(v2[i] == v[i]); }
        }
    }
}

pub proof fn lemma_union_push(v: Seq<RegLan>, x: RegLan, w: Seq<u32>)
    ensures union_all(v.push(x), w) == (union_all(v, w) || lang_k(x.expr, w)),
{
    let v2 = v.push(x);
    if union_all(v2, w) {
        let i = choose|i: int| #![trigger wit(i)] 0 <= i < v2.len() && wit(i) && lang_k(v2[i].expr, w);
        if i < v.len() { assert(v2[i] == v[i]); assert(wit(i)); }
    }
    if union_all(v, w) {
        let i = choose|i: int| #![trigger wit(i)] 0 <= i < v.len() && wit(i) && lang_k(v[i].expr, w);
        assert(v2[i] == v[i]); assert(wit(i));
    }
    if lang_k(x.expr, w) { assert(wit(v.len() as int) && v2[v.len() as int] == x); }
}

pub proof fn lemma_all_terms_push(t: Seq<RegLan>, v: Seq<RegLan>, x: RegLan)
    requires all_terms_of(t, v), term_of(t, x),
    ensures all_terms_of(t, v.push(x)),
{
    assert forall|i: int| 0 <= i < v.push(x).len() implies term_of(t, #[trigger] v.push(x)[i]) by {
        if i < v.len() { assert(v.push(x)[i] == v[i]); }
    }
}

// a table with complement pairs (what mgr_wf provides, without the manager)
pub open spec fn paired_table(t: Seq<RegLan>) -> bool {
    table_ok(t) && t.len() % 2 == 0 && (forall|j: int| 0 <= j && 2 * j + 1 < t.len() ==> #[trigger] pair_ok(t, j))
}

pub open spec fn set_ctx(t: Seq<RegLan>, v: Seq<RegLan>, bottom: RegLan, top: RegLan) -> bool {
    paired_table(t) && all_terms_of(t, v) && term_of(t, bottom) && term_of(t, top)
}

// bottom is neutral and top absorbing for intersection / for union
pub open spec fn inter_consts(bottom: RegLan, top: RegLan) -> bool {
    (forall|w: Seq<u32>| #[trigger] lang_k(bottom.expr, w) == word_ok(w)) && (forall|w: Seq<u32>| !#[trigger] lang_k(top.expr, w))
}
pub open spec fn union_consts(bottom: RegLan, top: RegLan) -> bool {
    (forall|w: Seq<u32>| #[trigger] lang_k(top.expr, w) == word_ok(w)) && (forall|w: Seq<u32>| !#[trigger] lang_k(bottom.expr, w))
}

pub proof fn lemma_union_word_ok(v: Seq<RegLan>, w: Seq<u32>)
    requires union_all(v, w),
    ensures word_ok(w),
{
    let i = choose|i: int| #![trigger wit(i)] 0 <= i < v.len() && wit(i) && lang_k(v[i].expr, w);
    lemma_lang_word_ok(v[i].expr, w);
}

// lists of terms of one table with the same ids denote the same intersection and the same union
pub proof fn lemma_same_ids(t: Seq<RegLan>, a: Seq<RegLan>, b: Seq<RegLan>, w: Seq<u32>)
    requires all_terms_of(t, a), all_terms_of(t, b), forall|id: usize| has_id(a, id) == has_id(b, id),
    ensures inter_all(a, w) == inter_all(b, w), union_all(a, w) == union_all(b, w),
{
    assert forall|i: int| 0 <= i < a.len() implies b.contains(#[trigger] a[i]) by {
        assert(has_id(a, a[i].id));
        let j = choose|j: int| 0 <= j < b.len() && (#[trigger] b[j]).id == a[i].id;
        assert(term_of(t, a[i]) && term_of(t, b[j]));
        assert(b[j] == a[i]);
    }
    assert forall|i: int| 0 <= i < b.len() implies a.contains(#[trigger] b[i]) by {
        assert(has_id(b, b[i].id));
        let j = choose|j: int| 0 <= j < a.len() && (#[trigger] a[j]).id == b[i].id;
        assert(term_of(t, b[i]) && term_of(t, a[j]));
        assert(a[j] == b[i]);
    }
    if inter_all(a, w) {
        assert forall|i: int| #![trigger wit(i)] 0 <= i < b.len() && wit(i) implies lang_k(b[i].expr, w) by {
            assert(a.contains(b[i]));
            let j = choose|j: int| 0 <= j < a.len() && a[j] == b[i];
            assert(wit(j));
        }
    }
    if inter_all(b, w) {
        assert forall|i: int| #![trigger wit(i)] 0 <= i < a.len() && wit(i) implies lang_k(a[i].expr, w) by {
            assert(b.contains(a[i]));
            let j = choose|j: int| 0 <= j < b.len() && b[j] == a[i];
            assert(wit(j));
        }
    }
    if union_all(a, w) {
        let i = choose|i: int| #![trigger wit(i)] 0 <= i < a.len() && wit(i) && lang_k(a[i].expr, w);
        assert(b.contains(a[i]));
        let j = choose|j: int| 0 <= j < b.len() && b[j] == a[i];
        assert(wit(j));
    }
    if union_all(b, w) {
        let i = choose|i: int| #![trigger wit(i)] 0 <= i < b.len() && wit(i) && lang_k(b[i].expr, w);
        assert(a.contains(b[i]));
        let j = choose|j: int| 0 <= j < a.len() && a[j] == b[i];
        assert(wit(j));
    }
}

// a list that contains a term and its complement: empty intersection, full union
pub proof fn lemma_complement_pair_in_list(t: Seq<RegLan>, v: Seq<RegLan>, a: int, b: int, j: int, w: Seq<u32>)
    requires paired_table(t), all_terms_of(t, v), 0 <= a < v.len(), 0 <= b < v.len(), 0 <= j, v[a].id == 2 * j, v[b].id == 2 * j + 1,
    ensures !inter_all(v, w), union_all(v, w) == word_ok(w),
{
    assert(term_of(t, v[a]) && term_of(t, v[b]));
    assert(pair_ok(t, j));
    lemma_pair_at(t, j, w);
    if inter_all(v, w) { assert(wit(a) && wit(b)); }
    if word_ok(w) {
        if lang_k(v[a].expr, w) { assert(wit(a)); } else { assert(wit(b)); }
    }
    if union_all(v, w) { lemma_union_word_ok(v, w); }
}

// a list that contains top
pub proof fn lemma_top_in_list(v: Seq<RegLan>, top: RegLan, a: int, w: Seq<u32>)
    requires 0 <= a < v.len(), v[a].expr == top.expr,
    ensures inter_consts(top, top) || true,
        (forall|u: Seq<u32>| !#[trigger] lang_k(top.expr, u)) ==> !inter_all(v, w),
        (forall|u: Seq<u32>| #[trigger] lang_k(top.expr, u) == word_ok(u)) ==> union_all(v, w) == word_ok(w),
{
    if inter_all(v, w) { assert(wit(a)); }
    if (forall|u: Seq<u32>| #[trigger] lang_k(top.expr, u) == word_ok(u)) {
        if word_ok(w) { assert(wit(a)); }
        if union_all(v, w) { lemma_union_word_ok(v, w); }
    }
}

pub proof fn lemma_singleton_ops(x: RegLan, w: Seq<u32>)
    ensures inter_all(seq![x], w) == lang_k(x.expr, w), union_all(seq![x], w) == lang_k(x.expr, w),
{
    let v = seq![x];
    assert(v[0] == x);
    if lang_k(x.expr, w) { lemma_lang_word_ok(x.expr, w); assert(wit(0)); }
    if inter_all(v, w) { assert(wit(0)); }
}

// ---- dropping the neutral element ----
pub open spec fn nb(s: Seq<RegLan>, bid: usize) -> Seq<RegLan> {
    s.filter(|x: RegLan| x.id != bid)
}

pub proof fn lemma_nb_push(s: Seq<RegLan>, x: RegLan, bid: usize)
    ensures nb(s.push(x), bid) == (if x.id != bid { nb(s, bid).push(x) } else { nb(s, bid) }),
{
    reveal(Seq::filter);
    assert(s.push(x).drop_last() =~= s);
}

pub proof fn lemma_nb_props(s: Seq<RegLan>, bid: usize)
    ensures nb(s, bid).len() <= s.len(),
        forall|k: int| 0 <= k < nb(s, bid).len() ==> s.contains(#[trigger] nb(s, bid)[k]) && nb(s, bid)[k].id != bid,
        sorted_by_id(s) ==> sorted_by_id(nb(s, bid)),
        sorted_by_id(s) && nb(s, bid).len() > 0 && s.len() > 0 ==> nb(s, bid)[nb(s, bid).len() - 1].id <= s[s.len() - 1].id,
    decreases s.len(),
{
    reveal(Seq::filter);
    if s.len() > 0 {
        let p = s.drop_last();
        let x = s.last();
        lemma_nb_props(p, bid);
        assert(s =~= p.push(x));
        lemma_nb_push(p, x, bid);
        let f = nb(s, bid);
        let fp = nb(p, bid);
        assert forall|k: int| 0 <= k < f.len() implies s.contains(#[trigger] f[k]) && f[k].id != bid by {
            if k < fp.len() {
                assert(f[k] == fp[k]);
                assert(p.contains(fp[k]));
                let i = choose|i: int| 0 <= i < p.len() && p[i] == fp[k];
                assert(s[i] == fp[k]);
            } else {
                assert(f[k] == x);
                assert(s[s.len() - 1] == x);
            }
        }
        if sorted_by_id(s) {
            assert forall|i: int, j: int| 0 <= i < j < p.len() implies (#[trigger] p[i]).id < (#[trigger] p[j]).id by { assert(p[i] == s[i] && p[j] == s[j]); }
            if x.id != bid {
                assert forall|i: int, j: int| 0 <= i < j < f.len() implies (#[trigger] f[i]).id < (#[trigger] f[j]).id by {
                    if j < fp.len() { assert(f[i] == fp[i] && f[j] == fp[j]); }
                    else {
                        assert(f[i] == fp[i]);
                        assert(p.contains(fp[i]));
                        let a = choose|a: int| 0 <= a < p.len() && p[a] == fp[i];
                        assert(s[a].id < s[s.len() - 1].id);
                    }
                }
            }
            if fp.len() > 0 && p.len() > 0 { assert(p[p.len() - 1].id < s[s.len() - 1].id || p.len() - 1 == s.len() - 1); assert(p[p.len() - 1] == s[p.len() - 1]); }
        }
    }
}

// removing the elements that are the neutral element changes neither the intersection nor the union
pub proof fn lemma_nb_sem(s: Seq<RegLan>, bottom: RegLan, w: Seq<u32>)
    requires forall|k: int| 0 <= k < s.len() && (#[trigger] s[k]).id == bottom.id ==> s[k].expr == bottom.expr,
    ensures (forall|u: Seq<u32>| #[trigger] lang_k(bottom.expr, u) == word_ok(u)) ==> inter_all(nb(s, bottom.id), w) == inter_all(s, w),
        (forall|u: Seq<u32>| !#[trigger] lang_k(bottom.expr, u)) ==> union_all(nb(s, bottom.id), w) == union_all(s, w),
    decreases s.len(),
{
    reveal(Seq::filter);
    let bid = bottom.id;
    if s.len() == 0 {
        assert(nb(s, bid) =~= s);
    } else {
        let p = s.drop_last();
        let x = s.last();
        assert(s =~= p.push(x));
        assert forall|k: int| 0 <= k < p.len() && (#[trigger] p[k]).id == bottom.id implies p[k].expr == bottom.expr by { assert(p[k] == s[k]); }
        lemma_nb_sem(p, bottom, w);
        lemma_nb_push(p, x, bid);
        lemma_inter_push(p, x, w);
        lemma_union_push(p, x, w);
        lemma_inter_push(nb(p, bid), x, w);
        lemma_union_push(nb(p, bid), x, w);
        if x.id == bid { assert(s[s.len() - 1] == x); assert(x.expr == bottom.expr); }
    }
}
