// ---- printing and reading back ----
pub open spec fn pow16(k: int) -> int
    decreases k,
{
    if k <= 0 { 1 } else { 16 * pow16(k - 1) }
}

pub proof fn lemma_hex_digit(d: int)
    requires 0 <= d < 16,
    ensures is_hex(hex_digit(d)), hexval(hex_digit(d)) == d,
        hex_digit(d) != '{', hex_digit(d) != '}', hex_digit(d) != '\\', hex_digit(d) != '"', hex_digit(d) != 'u',
        32 <= hex_digit(d) as u32 <= 126,
{
}

pub proof fn lemma_hex_digits_len(x: int, k: int)
    requires 0 <= k, 0 <= x,
    ensures hex_digits(x, k).len() == k,
        forall|j: int| 0 <= j < k ==> is_hex(#[trigger] hex_digits(x, k)[j]) && hex_digits(x, k)[j] != '{' && hex_digits(x, k)[j] != '}'
            && hex_digits(x, k)[j] != '\\' && hex_digits(x, k)[j] != '"' && 32 <= hex_digits(x, k)[j] as u32 <= 126,
    decreases k,
{
    if k > 0 {
        lemma_hex_digits_len(x / 16, k - 1);
        lemma_hex_digit(x % 16);
        let d = hex_digits(x, k);
        assert forall|j: int| 0 <= j < k implies is_hex(#[trigger] d[j]) && d[j] != '{' && d[j] != '}' && d[j] != '\\' && d[j] != '"' && 32 <= d[j] as u32 <= 126 by {
            if j < k - 1 { assert(d[j] == hex_digits(x / 16, k - 1)[j]); }
        }
    }
}

// the k digits hex_digits(x, k) found at t[i..i+k) have value x (when x fits in k digits)
pub proof fn lemma_hex_value_digits(t: Seq<char>, i: int, x: int, k: int)
    requires 0 <= k, 0 <= x < pow16(k), 0 <= i, i + k <= t.len(), t.subrange(i, i + k) == hex_digits(x, k),
    ensures hex_value(t, i, k) == x, hex_run(t, i, k),
    decreases k,
{
    lemma_hex_digits_len(x, k);
    assert forall|j: int| i <= j < i + k implies is_hex(#[trigger] t[j]) by {
        assert(t[j] == t.subrange(i, i + k)[j - i]);
    }
    if k > 0 {
        let d = hex_digits(x, k);
        assert(t[i + k - 1] == t.subrange(i, i + k)[k - 1]);
        assert(d[k - 1] == hex_digit(x % 16));
        lemma_hex_digit(x % 16);
        lemma_hex_digits_len(x / 16, k - 1);
        assert(t.subrange(i, i + k - 1) =~= hex_digits(x / 16, k - 1)) by {
            let lo = hex_digits(x / 16, k - 1);
            assert forall|j: int| 0 <= j < k - 1 implies t.subrange(i, i + k - 1)[j] == #[trigger] lo[j] by {
                assert(t.subrange(i, i + k - 1)[j] == t.subrange(i, i + k)[j]);
                assert(d[j] == lo[j]);
            }
        }
        assert(x / 16 < pow16(k - 1));
        lemma_hex_value_digits(t, i, x / 16, k - 1);
    }
}

// parsing from a position only looks at the text from that position on
pub proof fn lemma_parse_suffix(t1: Seq<char>, i1: int, t2: Seq<char>, i2: int)
    requires 0 <= i1 <= t1.len(), 0 <= i2 <= t2.len(), t1.subrange(i1, t1.len() as int) == t2.subrange(i2, t2.len() as int),
    ensures lit_parse_from(t1, i1) == lit_parse_from(t2, i2),
    decreases t1.len() - i1,
{
    let n = t1.len() - i1;
    let s1 = t1.subrange(i1, t1.len() as int);
    let s2 = t2.subrange(i2, t2.len() as int);
    assert(s1.len() == n && s2.len() == t2.len() - i2);
    assert(t2.len() - i2 == n);
    if n > 0 {
        assert(t1[i1] == s1[0] && t2[i2] == s2[0]);
        if n > 1 { assert(t1[i1 + 1] == s1[1] && t2[i2 + 1] == s2[1]); }
        if n > 2 { assert(t1[i1 + 2] == s1[2] && t2[i2 + 2] == s2[2]); }
        assert(esc4_at(t1, i1) == esc4_at(t2, i2)) by { if n >= 6 { lemma_sub_eq(t1, i1, t2, i2, 2, 4); lemma_hex_same(t1, i1 + 2, t2, i2 + 2, 4); } }
        assert forall|k: int| 1 <= k <= 5 implies escb_at(t1, i1, k) == escb_at(t2, i2, k) by { if n >= 4 + k { lemma_sub_eq(t1, i1, t2, i2, 3, k); lemma_hex_same(t1, i1 + 3, t2, i2 + 3, k); assert(t1[i1 + 3 + k] == s1[3 + k] && t2[i2 + 3 + k] == s2[3 + k]); } }
        let step: int = if esc4_at(t1, i1) { 6 } else if escb_at(t1, i1, 1) { 5 } else if escb_at(t1, i1, 2) { 6 } else if escb_at(t1, i1, 3) { 7 } else if escb_at(t1, i1, 4) { 8 } else if escb_at(t1, i1, 5) { 9 } else { 1 };
        assert(step <= n);
        assert(t1.subrange(i1 + step, t1.len() as int) =~= s1.subrange(step, n));
        assert(t2.subrange(i2 + step, t2.len() as int) =~= s2.subrange(step, n));
        lemma_parse_suffix(t1, i1 + step, t2, i2 + step);
        if esc4_at(t1, i1) { lemma_sub_eq(t1, i1, t2, i2, 2, 4); lemma_hex_same(t1, i1 + 2, t2, i2 + 2, 4); }
        else if escb_at(t1, i1, 1) { lemma_sub_eq(t1, i1, t2, i2, 3, 1); lemma_hex_same(t1, i1 + 3, t2, i2 + 3, 1); }
        else if escb_at(t1, i1, 2) { lemma_sub_eq(t1, i1, t2, i2, 3, 2); lemma_hex_same(t1, i1 + 3, t2, i2 + 3, 2); }
        else if escb_at(t1, i1, 3) { lemma_sub_eq(t1, i1, t2, i2, 3, 3); lemma_hex_same(t1, i1 + 3, t2, i2 + 3, 3); }
        else if escb_at(t1, i1, 4) { lemma_sub_eq(t1, i1, t2, i2, 3, 4); lemma_hex_same(t1, i1 + 3, t2, i2 + 3, 4); }
        else if escb_at(t1, i1, 5) { lemma_sub_eq(t1, i1, t2, i2, 3, 5); lemma_hex_same(t1, i1 + 3, t2, i2 + 3, 5); }
    }
}

pub proof fn lemma_hex_same(t1: Seq<char>, a1: int, t2: Seq<char>, a2: int, k: int)
    requires 0 <= k, 0 <= a1, a1 + k <= t1.len(), 0 <= a2, a2 + k <= t2.len(), t1.subrange(a1, a1 + k) == t2.subrange(a2, a2 + k),
    ensures hex_run(t1, a1, k) == hex_run(t2, a2, k), hex_value(t1, a1, k) == hex_value(t2, a2, k),
    decreases k,
{
    let s1 = t1.subrange(a1, a1 + k);
    let s2 = t2.subrange(a2, a2 + k);
    if k > 0 {
        assert(t1.subrange(a1, a1 + k - 1) =~= s1.subrange(0, k - 1));
        assert(t2.subrange(a2, a2 + k - 1) =~= s2.subrange(0, k - 1));
        lemma_hex_same(t1, a1, t2, a2, k - 1);
        assert(t1[a1 + k - 1] == s1[k - 1]);
        assert(t2[a2 + k - 1] == s2[k - 1]);
    }
    if hex_run(t1, a1, k) { assert forall|j: int| a2 <= j < a2 + k implies is_hex(#[trigger] t2[j]) by { assert(t2[j] == s2[j - a2]); assert(t1[a1 + (j - a2)] == s1[j - a2]); } }
    if hex_run(t2, a2, k) { assert forall|j: int| a1 <= j < a1 + k implies is_hex(#[trigger] t1[j]) by { assert(t1[j] == s1[j - a1]); assert(t2[a2 + (j - a1)] == s2[j - a1]); } }
}

// equal suffixes have equal sub-slices
pub proof fn lemma_sub_eq(t1: Seq<char>, i1: int, t2: Seq<char>, i2: int, a: int, k: int)
    requires 0 <= i1 <= t1.len(), 0 <= i2 <= t2.len(), t1.subrange(i1, t1.len() as int) == t2.subrange(i2, t2.len() as int),
        0 <= a, 0 <= k, i1 + a + k <= t1.len(),
    ensures i2 + a + k <= t2.len(), t1.subrange(i1 + a, i1 + a + k) == t2.subrange(i2 + a, i2 + a + k),
{
    let s1 = t1.subrange(i1, t1.len() as int);
    let s2 = t2.subrange(i2, t2.len() as int);
    assert(s1.len() == t1.len() - i1);
    assert(s2.len() == t2.len() - i2);
    assert(s1.len() == s2.len());
    assert(i2 + a + k <= t2.len());
    let u1 = t1.subrange(i1 + a, i1 + a + k);
    let u2 = t2.subrange(i2 + a, i2 + a + k);
    assert(u1.len() == k && u2.len() == k);
    assert forall|j: int| 0 <= j < k implies u1[j] == u2[j] by {
        assert(u1[j] == t1[i1 + a + j]);
        assert(u2[j] == t2[i2 + a + j]);
        assert(s1[a + j] == t1[i1 + a + j]);
        assert(s2[a + j] == t2[i2 + a + j]);
    }
    assert(u1 =~= u2);
}

// a braced escape with the k digits of x (x < 16^k, x <= MAX_CHAR) reads back as x
pub proof fn lemma_braced_roundtrip(x: int, k: int, rest: Seq<char>)
    requires 1 <= k <= 5, 0 <= x < pow16(k), x <= MAX_CHAR,
    ensures lit_parse_from(seq!['\\', 'u', '{'] + hex_digits(x, k) + seq!['}'] + rest, 0) == seq![x as u32] + lit_parse_from(rest, 0),
{
    let d = hex_digits(x, k);
    lemma_hex_digits_len(x, k);
    let t = seq!['\\', 'u', '{'] + d + seq!['}'] + rest;
    assert(t.len() == 4 + k + rest.len());
    assert(t[0] == '\\' && t[1] == 'u' && t[2] == '{');
    assert forall|j: int| 0 <= j < k implies t[3 + j] == #[trigger] d[j] by {}
    assert(t[3 + k] == '}');
    assert(t.subrange(3, 3 + k) =~= d);
    lemma_hex_value_digits(t, 3, x, k);
    assert(!esc4_at(t, 0)) by { if esc4_at(t, 0) { assert(is_hex(t[2])); } }
    assert forall|j: int| 1 <= j < k implies !escb_at(t, 0, j) by { assert(t[3 + j] == d[j]); assert(d[j] != '}'); }
    assert(escb_at(t, 0, k));
    assert(t.subrange(4 + k, t.len() as int) =~= rest.subrange(0, rest.len() as int));
    lemma_parse_suffix(t, 4 + k, rest, 0);
}

pub proof fn lemma_esc4_roundtrip(x: int, rest: Seq<char>)
    requires 0 <= x < 0x10000,
    ensures lit_parse_from(seq!['\\', 'u'] + hex_digits(x, 4) + rest, 0) == seq![x as u32] + lit_parse_from(rest, 0),
{
    let d = hex_digits(x, 4);
    lemma_hex_digits_len(x, 4);
    let t = seq!['\\', 'u'] + d + rest;
    assert(t[0] == '\\' && t[1] == 'u');
    assert(t.subrange(2, 6) =~= d);
    assert(pow16(4) == 65536) by { assert(pow16(0) == 1); assert(pow16(1) == 16); assert(pow16(2) == 256); assert(pow16(3) == 4096); }
    lemma_hex_value_digits(t, 2, x, 4);
    assert(esc4_at(t, 0));
    assert(t.subrange(6, t.len() as int) =~= rest.subrange(0, rest.len() as int));
    lemma_parse_suffix(t, 6, rest, 0);
}

pub proof fn lemma_hex_len5(x: int)
    requires 0x10000 <= x < 0x100000,
    ensures hex_len(x) == 5, x < pow16(5),
{
    assert(hex_len(x / 65536) == 1);
    assert(x / 4096 / 16 == x / 65536);
    assert(hex_len(x / 4096) == 2);
    assert(x / 256 / 16 == x / 4096);
    assert(hex_len(x / 256) == 3);
    assert(x / 16 / 16 == x / 256);
    assert(hex_len(x / 16) == 4);
    assert(pow16(0) == 1); assert(pow16(1) == 16); assert(pow16(2) == 256); assert(pow16(3) == 4096); assert(pow16(4) == 65536); assert(pow16(5) == 1048576);
}

// one code point: its printed body, followed by anything, reads back as that code point first
pub proof fn lemma_body_roundtrip(x: u32, rest: Seq<char>)
    requires x <= MAX_CHAR,
    ensures lit_parse_from(print_body(x) + rest, 0) == seq![x] + lit_parse_from(rest, 0),
{
    if 32 <= x < 127 && x != 0x5c {
        let c = (x as u8) as char;
        let t = seq![c] + rest;
        assert(t[0] == c);
        assert(c != '\\');
        assert(!esc4_at(t, 0));
        assert forall|k: int| 1 <= k <= 5 implies !escb_at(t, 0, k) by {}
        assert(lit_clean(c) == x);
        assert(t.subrange(1, t.len() as int) =~= rest.subrange(0, rest.len() as int));
        lemma_parse_suffix(t, 1, rest, 0);
    } else if x < 32 || x == 127 || x == 0x5c {
        assert(pow16(2) == 256) by { assert(pow16(0) == 1); assert(pow16(1) == 16); }
        lemma_braced_roundtrip(x as int, 2, rest);
    } else if x < 0x10000 {
        lemma_esc4_roundtrip(x as int, rest);
    } else {
        lemma_hex_len5(x as int);
        lemma_braced_roundtrip(x as int, 5, rest);
    }
}

// the body (quotes undone) of the printed string, built from position i on
pub open spec fn body_from(s: Seq<u32>, i: int) -> Seq<char>
    decreases s.len() - i,
{
    if i < 0 || i >= s.len() { Seq::<char>::empty() } else { print_body(s[i]) + body_from(s, i + 1) }
}

// reading back the body gives the string
pub proof fn lemma_string_roundtrip(s: Seq<u32>, i: int)
    requires 0 <= i <= s.len(), ss_good(s),
    ensures lit_parse(body_from(s, i)) == s.subrange(i, s.len() as int),
    decreases s.len() - i,
{
    if i < s.len() {
        lemma_string_roundtrip(s, i + 1);
        lemma_body_roundtrip(s[i], body_from(s, i + 1));
        assert(seq![s[i]] + s.subrange(i + 1, s.len() as int) =~= s.subrange(i, s.len() as int));
    } else {
        assert(s.subrange(i, s.len() as int) =~= Seq::<u32>::empty());
    }
}

// left-to-right and right-to-left constructions of the body agree
pub proof fn lemma_body_chars_from(s: Seq<u32>, i: int, n: int)
    requires 0 <= i <= n <= s.len(),
    ensures body_chars(s, n) == body_chars(s, i) + body_from(s.subrange(0, n), i),
    decreases n - i,
{
    let sn = s.subrange(0, n);
    if i == n {
        assert(body_from(sn, i) =~= Seq::<char>::empty());
        assert(body_chars(s, i) + Seq::<char>::empty() =~= body_chars(s, i));
    } else {
        lemma_body_chars_from(s, i + 1, n);
        assert(sn[i] == s[i]);
        assert(body_chars(s, i + 1) == body_chars(s, i) + print_body(s[i]));
        assert(body_from(sn, i) == print_body(sn[i]) + body_from(sn, i + 1));
        assert(body_chars(s, i) + print_body(s[i]) + body_from(sn, i + 1) =~= body_chars(s, i) + (print_body(s[i]) + body_from(sn, i + 1)));
    }
}

// C08 printing clause at the level of the oracle: the body of the printed form of a well-formed string
// (doubled quotes undone) reads back as the string
pub proof fn lemma_print_roundtrip(s: Seq<u32>)
    requires ss_good(s),
    ensures lit_parse(body_chars(s, s.len() as int)) == s,
{
    lemma_body_chars_from(s, 0, s.len() as int);
    assert(s.subrange(0, s.len() as int) =~= s);
    assert(body_chars(s, 0) + body_from(s, 0) =~= body_from(s, 0));
    lemma_string_roundtrip(s, 0);
}

// every printed character is printable ASCII, and a double quote is printed only for the double quote (doubled)
pub proof fn lemma_print_char_ascii(x: u32)
    ensures forall|j: int| 0 <= j < print_char(x).len() ==> 32 <= #[trigger] print_char(x)[j] as u32 <= 126,
        x != 0x22 ==> forall|j: int| 0 <= j < print_char(x).len() ==> #[trigger] print_char(x)[j] != '"',
        x != 0x22 ==> print_char(x) == print_body(x),
{
    let p = print_char(x);
    if x != 0x22 {
        if 32 <= x < 127 && x != 0x5c {
        } else if x < 32 || x == 127 || x == 0x5c {
            lemma_hex_digits_len(x as int, 2);
            let d = hex_digits(x as int, 2);
            assert forall|j: int| 0 <= j < p.len() implies 32 <= #[trigger] p[j] as u32 <= 126 && p[j] != '"' by {
                if 3 <= j < 5 { assert(p[j] == d[j - 3]); }
            }
        } else if x < 0x10000 {
            lemma_hex_digits_len(x as int, 4);
            let d = hex_digits(x as int, 4);
            assert forall|j: int| 0 <= j < p.len() implies 32 <= #[trigger] p[j] as u32 <= 126 && p[j] != '"' by {
                if 2 <= j { assert(p[j] == d[j - 2]); }
            }
        } else {
            let k = hex_len(x as int);
            lemma_hex_len_pos(x as int);
            lemma_hex_digits_len(x as int, k);
            let d = hex_digits(x as int, k);
            assert forall|j: int| 0 <= j < p.len() implies 32 <= #[trigger] p[j] as u32 <= 126 && p[j] != '"' by {
                if 3 <= j < 3 + k { assert(p[j] == d[j - 3]); }
            }
        }
    }
}

pub proof fn lemma_hex_len_pos(x: int)
    requires 0 <= x,
    ensures hex_len(x) >= 1,
    decreases x,
{
    if x >= 16 { lemma_hex_len_pos(x / 16); }
}
