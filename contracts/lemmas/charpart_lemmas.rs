pub proof fn lemma_from_set_witness(c: CharSet)
    requires cs_wf(c),
    ensures cl_witness(seq![c], if c.start > 0 { 0 } else { c.end + 1 }), cp_sorted(seq![c]),
{
    let l = seq![c];
    assert(l[0] == c);
    let w: int = if c.start > 0 { 0 } else { c.end + 1 };
    assert forall|x: int| 0 <= x < w implies cl_in(l, x) by {
        assert(cs_has(l[0], x));
    }
}

pub proof fn lemma_push_witness(l: Seq<CharSet>, w: int, c: CharSet)
    requires cp_sorted(l), cl_witness(l, w), cs_wf(c), l.len() > 0 ==> c.start > l[l.len() - 1].end,
    ensures cp_sorted(l.push(c)), cl_witness(l.push(c), if c.start <= w { c.end + 1 } else { w }),
{
    let l2 = l.push(c);
    let n = l.len() as int;
    assert(forall|i: int| 0 <= i < n ==> l2[i] == l[i]);
    assert(l2[n] == c);
    assert forall|i: int, j: int| 0 <= i < j < l2.len() implies (#[trigger] l2[i]).end < (#[trigger] l2[j]).start by {
        if j == n && n > 0 {
            if i < n - 1 { assert(l[i].end < l[n - 1].start); }
        }
    }
    // membership in l2 = membership in l or in c
    assert forall|x: int| cl_in(l2, x) == (cl_in(l, x) || cs_has(c, x)) by {
        if cl_in(l, x) {
            let i = choose|i: int| 0 <= i < l.len() && cs_has(#[trigger] l[i], x);
            assert(cs_has(l2[i], x));
        }
        if cs_has(c, x) { assert(cs_has(l2[n], x)); }
        if cl_in(l2, x) {
            let i = choose|i: int| 0 <= i < l2.len() && cs_has(#[trigger] l2[i], x);
            if i < n { assert(cs_has(l[i], x)); }
        }
    }
    // every interval of l lies below c.start, so w <= c.start or w is beyond everything
    if w < c.start {
    } else {
        // c.start <= w: all of [0, c.start) is in l, and w not in l.  Since w >= c.start
        // and w is the least outside l: characters c.start..w-1 would be in l, impossible
        // unless w == c.start (intervals of l end before c.start)
        if w > c.start {
            assert(cl_in(l, c.start as int));
            let i = choose|i: int| 0 <= i < l.len() && cs_has(#[trigger] l[i], c.start as int);
            if i < n - 1 { assert(l[i].end < l[n - 1].start); }
        }
    }
}

// no interval of a sorted list contains x when x lies strictly between l[i].end and the next start
pub proof fn lemma_gap(l: Seq<CharSet>, i: int, x: int)
    requires cp_sorted(l), -1 <= i < l.len(),
        i >= 0 ==> l[i].end < x,
        i + 1 < l.len() ==> x < l[i + 1].start,
    ensures !cl_in(l, x),
{
    if cl_in(l, x) {
        let k = choose|k: int| 0 <= k < l.len() && cs_has(#[trigger] l[k], x);
        if k < i { assert(l[k].end < l[i].start); }
        if k > i + 1 { assert(l[i + 1].end < l[k].start); }
    }
}

pub proof fn lemma_interval_cover(l: Seq<CharSet>, set: CharSet, i: int)
    requires cp_sorted(l), cs_wf(set),
        l.len() == 0 ==> i == 0,
        l.len() > 0 ==> 0 <= i < l.len(),
        forall|k: int| i < k < l.len() ==> set.start < (#[trigger] l[k]).start,
        l.len() > 0 && i > 0 ==> l[i].start <= set.start,
    ensures ({
        let a = set.start as int;
        let b = set.end as int;
        let a_i = if i < l.len() { l[i].start as int } else { MAX_CHAR + 1 };
        let b_i = if i < l.len() { l[i].end as int } else { MAX_CHAR + 1 };
        let next = if i + 1 < l.len() { l[i + 1].start as int } else { MAX_CHAR + 1 };
        &&& (a < a_i ==> i == 0)
        &&& (a < a_i && b < a_i ==> cl_disjoint_all(l, set))
        &&& (a < a_i && b >= a_i ==> !cl_covered_by_some(l, set) && !cl_disjoint_all(l, set))
        &&& (a_i <= a <= b_i && b <= b_i ==> i < l.len() && cl_covered_by(l, set, i))
        &&& (a_i <= a <= b_i && b > b_i ==> !cl_covered_by_some(l, set) && !cl_disjoint_all(l, set))
        &&& (a_i <= a && a > b_i && b < next ==> cl_disjoint_all(l, set))
        &&& (a_i <= a && a > b_i && b >= next ==> !cl_covered_by_some(l, set) && !cl_disjoint_all(l, set))
    }),
{
    let a = set.start as int;
    let b = set.end as int;
    let n = l.len() as int;
    let a_i = if i < n { l[i].start as int } else { MAX_CHAR + 1 };
    let b_i = if i < n { l[i].end as int } else { MAX_CHAR + 1 };
    let next = if i + 1 < n { l[i + 1].start as int } else { MAX_CHAR + 1 };
    assert(cs_has(set, a) && cs_has(set, b));
    if a < a_i {
        // every interval starts after a
        assert forall|k: int| 0 <= k < n implies a < (#[trigger] l[k]).start by {
            if k > i { } else { assert(k == i || i > 0); }
        }
        assert(!cl_in(l, a));
        if b < a_i {
            assert forall|x: int| cs_has(set, x) implies !cl_in(l, x) by {
                if cl_in(l, x) {
                    let k = choose|k: int| 0 <= k < l.len() && cs_has(#[trigger] l[k], x);
                    if k > 0 { assert(l[0].end < l[k].start); }
                }
            }
        } else {
            assert(n > 0);
            assert(cs_has(set, a_i) && cs_has(l[i], a_i));
            assert(cl_in(l, a_i));
            if cl_covered_by_some(l, set) {
                let k = choose|k: int| 0 <= k < l.len() && #[trigger] cl_covered_by(l, set, k);
                assert(cs_has(l[k], a));
            }
        }
    } else if a <= b_i {
        assert(cs_has(l[i], a));
        assert(cl_in(l, a));
        if b > b_i {
            if cl_covered_by_some(l, set) {
                let k = choose|k: int| 0 <= k < l.len() && #[trigger] cl_covered_by(l, set, k);
                assert(cs_has(l[k], a) && cs_has(l[k], b));
                if k < i { assert(l[k].end < l[i].start); }
                if k > i { assert(l[i].end < l[k].start); }
            }
        }
    } else {
        if n > 0 {
            lemma_gap(l, i, a);
            if b < next {
                assert forall|x: int| cs_has(set, x) implies !cl_in(l, x) by { lemma_gap(l, i, x); }
            } else {
                assert(i + 1 < n);
                assert(cs_has(set, next) && cs_has(l[i + 1], next));
                assert(cl_in(l, next));
                if cl_covered_by_some(l, set) {
                    let k = choose|k: int| 0 <= k < l.len() && #[trigger] cl_covered_by(l, set, k);
                    assert(cs_has(l[k], a));
                    assert(cl_in(l, a));
                }
            }
        }
    }
}

pub proof fn lemma_sorted_starts(l: Seq<CharSet>, k: int)
    requires cp_sorted(l), 0 <= k < l.len(),
    ensures l[k].start >= k,
    decreases k,
{
    if k > 0 {
        lemma_sorted_starts(l, k - 1);
        assert(l[k - 1].end < l[k].start);
    }
}

// a sorted list of disjoint intervals over [0, MAX_CHAR] has at most MAX_CHAR + 1 entries
pub proof fn lemma_sorted_len(l: Seq<CharSet>)
    requires cp_sorted(l),
    ensures l.len() <= MAX_CHAR + 1,
{
    if l.len() > 0 {
        lemma_sorted_starts(l, l.len() - 1);
    }
}

pub proof fn lemma_empty_complement(l: Seq<CharSet>, w: int)
    requires cp_sorted(l), cl_witness(l, w),
    ensures (w > MAX_CHAR) == (forall|x: int| 0 <= x <= MAX_CHAR ==> cl_in(l, x)),
        (w > MAX_CHAR) == !(exists|x: int| 0 <= x <= MAX_CHAR && !cl_in(l, x)),
{
    if w <= MAX_CHAR {
        assert(0 <= w <= MAX_CHAR && !cl_in(l, w));
    }
}

// ---- try_from_iter ----
pub open spec fn cs_disjoint(a: CharSet, b: CharSet) -> bool {
    a.end < b.start || b.end < a.start
}

pub open spec fn cl_pairwise_disjoint(s: Seq<CharSet>) -> bool {
    forall|i: int, j: int| 0 <= i < j < s.len() ==> cs_disjoint(#[trigger] s[i], #[trigger] s[j])
}

// perm is a bijection on [0, n) with inverse inv
pub open spec fn is_perm(perm: Seq<int>, inv: Seq<int>, n: int) -> bool {
    &&& perm.len() == n
    &&& inv.len() == n
    &&& forall|i: int| 0 <= i < n ==> 0 <= #[trigger] perm[i] < n && inv[perm[i]] == i
    &&& forall|k: int| 0 <= k < n ==> 0 <= #[trigger] inv[k] < n && perm[inv[k]] == k
}

// t is s rearranged by perm
pub open spec fn rearranged(t: Seq<CharSet>, s: Seq<CharSet>, perm: Seq<int>, inv: Seq<int>) -> bool {
    &&& t.len() == s.len()
    &&& is_perm(perm, inv, s.len() as int)
    &&& forall|i: int| 0 <= i < t.len() ==> #[trigger] t[i] == s[perm[i]]
}

pub open spec fn is_rearrangement(t: Seq<CharSet>, s: Seq<CharSet>) -> bool {
    exists|perm: Seq<int>, inv: Seq<int>| rearranged(t, s, perm, inv)
}

// the witness computed by scanning the first k intervals the way try_from_iter does
pub open spec fn wit_scan(l: Seq<CharSet>, k: int) -> int
    decreases k,
{
    if k <= 0 { 0 } else {
        let w = wit_scan(l, k - 1);
        if l[k - 1].start <= w { l[k - 1].end + 1 } else { w }
    }
}

pub open spec fn adjacent_sorted(l: Seq<CharSet>, k: int) -> bool {
    forall|i: int| 0 <= i < k - 1 ==> (#[trigger] l[i]).end < l[i + 1].start
}

pub proof fn lemma_adjacent_sorted(l: Seq<CharSet>, i: int, j: int)
    requires adjacent_sorted(l, l.len() as int), forall|i: int| 0 <= i < l.len() ==> cs_wf(#[trigger] l[i]), 0 <= i < j < l.len(),
    ensures l[i].end < l[j].start,
    decreases j - i,
{
    if j == i + 1 {
    } else {
        lemma_adjacent_sorted(l, i, j - 1);
        assert(l[j - 1].end < l[j - 1 + 1].start);
    }
}

pub proof fn lemma_adjacent_is_sorted(l: Seq<CharSet>)
    requires adjacent_sorted(l, l.len() as int), forall|i: int| 0 <= i < l.len() ==> cs_wf(#[trigger] l[i]),
    ensures cp_sorted(l),
{
    assert forall|i: int, j: int| 0 <= i < j < l.len() implies (#[trigger] l[i]).end < (#[trigger] l[j]).start by {
        lemma_adjacent_sorted(l, i, j);
    }
}

pub proof fn lemma_wit_scan(l: Seq<CharSet>, k: int)
    requires cp_sorted(l), 0 <= k <= l.len(),
    ensures cl_witness(l.take(k), wit_scan(l, k)), cp_sorted(l.take(k)),
    decreases k,
{
    if k == 0 {
        assert(l.take(0).len() == 0);
    } else {
        lemma_wit_scan(l, k - 1);
        let p = l.take(k - 1);
        assert(l.take(k) =~= p.push(l[k - 1]));
        if k - 1 > 0 { assert(p[p.len() - 1] == l[k - 2]); assert(l[k - 2].end < l[k - 1].start); }
        lemma_push_witness(p, wit_scan(l, k - 1), l[k - 1]);
    }
}

pub proof fn lemma_rearranged_disjoint(t: Seq<CharSet>, s: Seq<CharSet>, perm: Seq<int>, inv: Seq<int>)
    requires rearranged(t, s, perm, inv),
    ensures cl_pairwise_disjoint(t) == cl_pairwise_disjoint(s),
{
    let n = s.len() as int;
    if cl_pairwise_disjoint(s) {
        assert forall|i: int, j: int| 0 <= i < j < t.len() implies cs_disjoint(#[trigger] t[i], #[trigger] t[j]) by {
            let a = perm[i];
            let b = perm[j];
            assert(inv[a] == i && inv[b] == j);
            if a < b { assert(cs_disjoint(s[a], s[b])); } else { assert(cs_disjoint(s[b], s[a])); }
        }
    }
    if cl_pairwise_disjoint(t) {
        assert forall|i: int, j: int| 0 <= i < j < s.len() implies cs_disjoint(#[trigger] s[i], #[trigger] s[j]) by {
            let a = inv[i];
            let b = inv[j];
            assert(perm[a] == i && perm[b] == j);
            assert(t[a] == s[i] && t[b] == s[j]);
            if a < b { assert(cs_disjoint(t[a], t[b])); } else { assert(cs_disjoint(t[b], t[a])); }
        }
    }
}

// a sorted list of disjoint non-empty intervals inside [0, MAX_CHAR] has at most MAX_CHAR + 1 members
pub proof fn lemma_sorted_start_lower(l: Seq<CharSet>, i: int)
    requires cp_sorted(l), 0 <= i < l.len(),
    ensures l[i].start >= i,
    decreases i,
{
    if i > 0 {
        lemma_sorted_start_lower(l, i - 1);
        assert(l[i - 1].end < l[i].start);
        assert(cs_wf(l[i - 1]));
    }
}

pub proof fn lemma_sorted_len_bound(l: Seq<CharSet>)
    requires cp_sorted(l),
    ensures l.len() <= MAX_CHAR + 1,
{
    if l.len() > 0 {
        lemma_sorted_start_lower(l, l.len() - 1);
        assert(cs_wf(l[l.len() - 1]));
    }
}

