// a processed state stays processed when the set grows, keys keep their ids and the state itself is untouched
pub proof fn lemma_st_done_kept(b2: AutomatonBuilder<BaseRegLan>, b1: AutomatonBuilder<BaseRegLan>, s2: Set<RegLan>, s1: Set<RegLan>, x: RegLan)
    requires st_done(b1, s1, x), ids_kept(b2, b1), b1.id_map@.contains_key(x.expr),
        forall|y: RegLan| s1.contains(y) ==> s2.contains(y) && b1.id_map@.contains_key(y.expr),
        kid(b1, x) < b1.states@.len(), kid(b1, x) < b2.states@.len(),
        sic_same(b2.states@[kid(b1, x) as int], b1.states@[kid(b1, x) as int]),
    ensures st_done(b2, s2, x),
{
    let q1 = b1.states@[kid(b1, x) as int];
    let q2 = b2.states@[kid(b2, x) as int];
    assert(kid(b2, x) == kid(b1, x));
    assert forall|c: u32| c <= MAX_CHAR implies #[trigger] maps_to_deriv(b2, s2, x, c) by {
        assert(maps_to_deriv(b1, s1, x, c));
        let y = choose|y: RegLan| s1.contains(y) && #[trigger] is_deriv(y, x, c) && tr_maps(q1.transitions@, q1.default_successor, c as int, kid(b1, y) as int);
        assert(kid(b2, y) == kid(b1, y));
        assert(s2.contains(y));
    }
    assert(sic_acceptable(q2)) by {
        assert(q2.transitions@ == q1.transitions@);
    }
}

// the compiled automaton accepts from the state of x exactly the words of L(x)
pub proof fn lemma_simulation(a: Automaton, b: AutomatonBuilder<BaseRegLan>, s: Set<RegLan>, x: RegLan, w: Seq<u32>)
    requires built_from(a, b), bld_wf(b), ss_good(w), s.contains(x),
        forall|y: RegLan| #[trigger] s.contains(y) ==> b.id_map@.contains_key(y.expr) && st_done(b, s, y),
    ensures accepts_from(a, kid(b, x) as int, w) == lang_k(x.expr, w),
        0 <= run(a, kid(b, x) as int, w) < a.states@.len(),
    decreases w.len(),
{
    let q = kid(b, x) as int;
    assert(st_done(b, s, x));
    assert(0 <= q < a.states@.len());
    if w.len() == 0 {
        assert(w =~= eps());
    } else {
        let c = w[0];
        let w1 = w.subrange(1, w.len() as int);
        assert(seq![c] + w1 =~= w);
        assert forall|i: int| 0 <= i < w1.len() implies #[trigger] w1[i] <= MAX_CHAR by { assert(w1[i] == w[i + 1]); }
        assert(maps_to_deriv(b, s, x, c));
        let y = choose|y: RegLan| s.contains(y) && #[trigger] is_deriv(y, x, c)
            && tr_maps(b.states@[q].transitions@, b.states@[q].default_successor, c as int, kid(b, y) as int);
        assert(state_matches(a.states@[q], b.states@[q]));
        assert(st_maps(a.states@[q], c as int, kid(b, y) as int));
        lemma_delta_total(a.states@[q], a.states@.len() as int, c as int);
        assert(delta(a, q, c as int) == kid(b, y));
        lemma_simulation(a, b, s, y, w1);
        assert(lang_k(y.expr, w1) == quot(x.expr, c, w1));
    }
}

// hash-consing: two terms of one manager with the same node are the same term
pub proof fn lemma_same_expr(m: ReManager, a: RegLan, b: RegLan)
    requires mgr_wf(m), owned(m, a), owned(m, b), a.expr == b.expr,
    ensures a == b,
{
    let t = m.store.terms@;
    assert(t[a.id as int].expr == t[b.id as int].expr);
    if a.id < b.id { assert((#[trigger] t[a.id as int]).expr != (#[trigger] t[b.id as int]).expr); }
    if b.id < a.id { assert((#[trigger] t[b.id as int]).expr != (#[trigger] t[a.id as int]).expr); }
}

// one step of the expansion of e: derivative d computed, pushed, and recorded in the builder
pub proof fn lemma_frame_step(m1: ReManager, m2: ReManager, qu1: BfsQueue<RegLan>, qu2: BfsQueue<RegLan>,
                              b1: AutomatonBuilder<BaseRegLan>, b2: AutomatonBuilder<BaseRegLan>, e: RegLan, d: RegLan)
    requires cw_frame(m1, qu1, b1, e), mgr_wf2(m2), grows(m2, m1), owned(m2, d),
        pushed(qu2, qu1, d), q_wf(qu2), bld_stepped(b2, b1, e, d),
    ensures cw_frame(m2, qu2, b2, e), ids_kept(b2, b1), kid(b2, e) == kid(b1, e),
        b2.id_map@.contains_key(d.expr), qu2.set@.contains(d),
        forall|y: RegLan| qu1.set@.contains(y) ==> qu2.set@.contains(y),
{
    let s1 = qu1.set@;
    let s2 = qu2.set@;
    let i = kid(b1, e);
    assert(owned(m1, e) && b1.id_map@.contains_key(e.expr));
    lemma_owned_grows(m2, m1, e);
    assert forall|x: RegLan| #[trigger] s2.contains(x) implies owned(m2, x) by {
        if s1.contains(x) { lemma_owned_grows(m2, m1, x); }
    }
    // d is new in the set exactly when its node is a new key
    if s1.contains(d) {
        assert(b1.id_map@.contains_key(d.expr));
    } else if b1.id_map@.contains_key(d.expr) {
        assert(key_has_term(s1, d.expr));
        let x = choose|x: RegLan| s1.contains(x) && #[trigger] x.expr == d.expr;
        lemma_owned_grows(m2, m1, x);
        lemma_same_expr(m2, x, d);
        assert(false);
    }
    assert(ids_kept(b2, b1));
    assert forall|k: BaseRegLan| #[trigger] b2.id_map@.contains_key(k) implies key_has_term(s2, k) by {
        if b1.id_map@.contains_key(k) {
            assert(key_has_term(s1, k));
            let x = choose|x: RegLan| s1.contains(x) && #[trigger] x.expr == k;
            assert(s2.contains(x));
        } else {
            assert(k == d.expr);
            assert(s2.contains(d));
        }
    }
    assert forall|x: RegLan| #[trigger] q_done(qu2, x) && x != e implies st_done(b2, s2, x) by {
        assert(s1.contains(x)) by {
            if !s1.contains(x) { assert(x == d); assert(qu2.queue@[qu1.queue@.len() as int] == d); }
        }
        if qu1.queue@.contains(x) {
            let j = choose|j: int| 0 <= j < qu1.queue@.len() && qu1.queue@[j] == x;
            assert(qu2.queue@[j] == x);
        }
        assert(q_done(qu1, x));
        assert(kid(b1, x) != i) by {
            if kid(b1, x) == i { lemma_same_expr(m1, x, e); }
        }
        lemma_st_done_kept(b2, b1, s2, s1, x);
    }
    assert forall|x: RegLan| #[trigger] qu2.queue@.contains(x) implies sic_fresh(b2.states@[kid(b2, x) as int]) by {
        if qu1.queue@.contains(x) {
            assert(s1.contains(x)) by {
                let j = choose|j: int| 0 <= j < qu1.queue@.len() && qu1.queue@[j] == x;
            }
            assert(kid(b1, x) != i) by {
                if kid(b1, x) == i { lemma_same_expr(m1, x, e); }
            }
            assert(sic_same(b2.states@[kid(b1, x) as int], b1.states@[kid(b1, x) as int]));
        } else {
            let j = choose|j: int| 0 <= j < qu2.queue@.len() && qu2.queue@[j] == x;
            assert(!s1.contains(d) && x == d) by {
                if s1.contains(d) { assert(qu1.queue@[j] == x); }
                else if j < qu1.queue@.len() { assert(qu1.queue@[j] == x); }
            }
            assert(kid(b2, d) == b1.size);
            assert(kid(b2, d) != i);
        }
    }
    assert(!qu2.queue@.contains(e)) by {
        if qu2.queue@.contains(e) {
            let j = choose|j: int| 0 <= j < qu2.queue@.len() && qu2.queue@[j] == e;
            if s1.contains(d) { assert(qu1.queue@[j] == e); }
            else if j < qu1.queue@.len() { assert(qu1.queue@[j] == e); }
        }
    }
}

pub proof fn lemma_trans_kept(b2: AutomatonBuilder<BaseRegLan>, b1: AutomatonBuilder<BaseRegLan>, s2: Set<RegLan>, s1: Set<RegLan>, e: RegLan, idx: int)
    requires trans_ok(b1, s1, e, idx), ids_kept(b2, b1), b1.id_map@.contains_key(e.expr),
        forall|y: RegLan| s1.contains(y) ==> s2.contains(y),
        b2.states@[kid(b1, e) as int].transitions@ == b1.states@[kid(b1, e) as int].transitions@,
    ensures trans_ok(b2, s2, e, idx),
{
    let q1 = b1.states@[kid(b1, e) as int];
    let q2 = b2.states@[kid(b2, e) as int];
    assert forall|k: int| 0 <= k < idx implies (#[trigger] q2.transitions@[k]).0 == e.deriv_class.list@[k] && tr_to_deriv(b2, s2, e, k) by {
        assert(q1.transitions@[k].0 == e.deriv_class.list@[k] && tr_to_deriv(b1, s1, e, k));
        let y = choose|y: RegLan| s1.contains(y) && b1.id_map@.contains_key(y.expr) && kid(b1, y) == q1.transitions@[k].1 && #[trigger] range_deriv(y, e, q1.transitions@[k].0);
        assert(s2.contains(y) && b2.id_map@.contains_key(y.expr) && kid(b2, y) == q2.transitions@[k].1 && range_deriv(y, e, q2.transitions@[k].0));
    }
}

pub proof fn lemma_trans_push(b2: AutomatonBuilder<BaseRegLan>, b1: AutomatonBuilder<BaseRegLan>, s2: Set<RegLan>, s1: Set<RegLan>, e: RegLan, d: RegLan, idx: int)
    requires trans_ok(b1, s1, e, idx), ids_kept(b2, b1), b1.id_map@.contains_key(e.expr),
        forall|y: RegLan| s1.contains(y) ==> s2.contains(y),
        s2.contains(d), b2.id_map@.contains_key(d.expr), 0 <= idx < e.deriv_class.list@.len(),
        b2.states@[kid(b1, e) as int].transitions@ == b1.states@[kid(b1, e) as int].transitions@.push((e.deriv_class.list@[idx], kid(b2, d))),
        range_deriv(d, e, e.deriv_class.list@[idx]),
    ensures trans_ok(b2, s2, e, idx + 1),
{
    let q1 = b1.states@[kid(b1, e) as int];
    let q2 = b2.states@[kid(b2, e) as int];
    assert forall|k: int| 0 <= k < idx + 1 implies (#[trigger] q2.transitions@[k]).0 == e.deriv_class.list@[k] && tr_to_deriv(b2, s2, e, k) by {
        if k < idx {
            assert(q2.transitions@[k] == q1.transitions@[k]);
            assert(q1.transitions@[k].0 == e.deriv_class.list@[k] && tr_to_deriv(b1, s1, e, k));
            let y = choose|y: RegLan| s1.contains(y) && b1.id_map@.contains_key(y.expr) && kid(b1, y) == q1.transitions@[k].1 && #[trigger] range_deriv(y, e, q1.transitions@[k].0);
            assert(s2.contains(y) && b2.id_map@.contains_key(y.expr) && kid(b2, y) == q2.transitions@[k].1 && range_deriv(y, e, q2.transitions@[k].0));
        } else {
            assert(q2.transitions@[k] == (e.deriv_class.list@[idx], kid(b2, d)));
            assert(range_deriv(d, e, q2.transitions@[k].0));
        }
    }
}

// all classes of e recorded: the state of e implements its derivatives
pub proof fn lemma_cur_finish(b: AutomatonBuilder<BaseRegLan>, s: Set<RegLan>, e: RegLan)
    requires re_ok(*e), b.id_map@.contains_key(e.expr),
        trans_ok(b, s, e, e.deriv_class.list@.len() as int), default_ok(b, s, e),
        b.states@[kid(b, e) as int].is_final == lang_k(e.expr, eps()),
    ensures st_done(b, s, e),
{
    let q = b.states@[kid(b, e) as int];
    let l = e.deriv_class.list@;
    let ts = q.transitions@;
    assert(cp_sorted(l));
    assert forall|i: int, j: int| 0 <= i < j < ts.len() implies cs_disjoint((#[trigger] ts[i]).0, (#[trigger] ts[j]).0) by {
        assert(ts[i].0 == l[i] && ts[j].0 == l[j]);
        assert(l[i].end < l[j].start);
    }
    assert forall|c: int| #![trigger tr_covered(ts, c)] tr_covered(ts, c) == cl_in(l, c) by {
        if tr_covered(ts, c) {
            let i = choose|i: int| 0 <= i < ts.len() && cs_has((#[trigger] ts[i]).0, c);
            assert(cs_has(l[i], c));
        }
        if cl_in(l, c) {
            let i = choose|i: int| 0 <= i < l.len() && cs_has(#[trigger] l[i], c);
            assert(cs_has(ts[i].0, c));
        }
    }
    if cp_valid(dclass(e), ClassId::Complement) {
        let x = choose|x: int| 0 <= x <= MAX_CHAR && !cl_in(l, x);
        assert(!tr_covered(ts, x));
    } else {
        assert forall|c: int| 0 <= c <= MAX_CHAR implies tr_covered(ts, c) by { assert(cl_in(l, c)); }
    }
    assert(sic_acceptable(q));
    assert forall|c: u32| c <= MAX_CHAR implies #[trigger] maps_to_deriv(b, s, e, c) by {
        if cl_in(l, c as int) {
            let i = choose|i: int| 0 <= i < l.len() && cs_has(#[trigger] l[i], c as int);
            assert(ts[i].0 == l[i] && tr_to_deriv(b, s, e, i));
            let y = choose|y: RegLan| s.contains(y) && b.id_map@.contains_key(y.expr) && kid(b, y) == ts[i].1 && #[trigger] range_deriv(y, e, ts[i].0);
            assert(is_deriv(y, e, c));
            assert(cs_has(ts[i].0, c as int) && ts[i].1 == kid(b, y));
        } else {
            assert(cp_valid(*e.deriv_class, ClassId::Complement));
            let y = choose|y: RegLan| s.contains(y) && b.id_map@.contains_key(y.expr) && q.default_successor == Some(kid(b, y)) && #[trigger] is_class_deriv(y, e, ClassId::Complement);
            assert(in_class(e, c, ClassId::Complement));
            assert(lang_k(y.expr, eps()) == quot(e.expr, c, eps()));
            assert(is_deriv(y, e, c));
            assert(!tr_covered(ts, c as int));
        }
    }
}

// when nothing is pending, the seen set is a derivative closure and the automaton built from b decides every member
pub proof fn lemma_compiled(a: Automaton, m: ReManager, qu: BfsQueue<RegLan>, b: AutomatonBuilder<BaseRegLan>, e0: RegLan)
    requires cw_inv2(m, qu, b), qu.queue@.len() == 0, built_from(a, b), qu.set@.contains(e0), all_reach(qu.set@, e0), kid(b, e0) == 0,
    ensures deriv_closure(qu.set@, e0),
        forall|w: Seq<u32>| ss_good(w) ==> #[trigger] accepts_from(a, 0, w) == lang_k(e0.expr, w),
{
    let s = qu.set@;
    assert forall|y: RegLan| #[trigger] s.contains(y) implies b.id_map@.contains_key(y.expr) && st_done(b, s, y) by {
        assert(q_done(qu, y));
    }
    assert forall|x: RegLan| #[trigger] s.contains(x) implies closed_at(s, x) by {
        assert(st_done(b, s, x));
        assert forall|c: u32| c <= MAX_CHAR implies #[trigger] has_deriv_in(s, x, c) by {
            assert(maps_to_deriv(b, s, x, c));
            let y = choose|y: RegLan| s.contains(y) && #[trigger] is_deriv(y, x, c)
                && tr_maps(b.states@[kid(b, x) as int].transitions@, b.states@[kid(b, x) as int].default_successor, c as int, kid(b, y) as int);
        }
    }
    assert forall|w: Seq<u32>| ss_good(w) implies #[trigger] accepts_from(a, 0, w) == lang_k(e0.expr, w) by {
        lemma_simulation(a, b, s, e0, w);
    }
}

// after a pop: the popped term is the one being expanded, its state is still fresh
pub proof fn lemma_after_pop(m: ReManager, qu1: BfsQueue<RegLan>, qu2: BfsQueue<RegLan>, b: AutomatonBuilder<BaseRegLan>, e: RegLan)
    requires cw_inv2(m, qu1, b), q_wf(qu2), qu2.set@ == qu1.set@,
        qu1.queue@.len() > 0, e == qu1.queue@[0], qu2.queue@ == qu1.queue@.subrange(1, qu1.queue@.len() as int),
        q_done(qu2, e),
        forall|x: RegLan| #[trigger] q_done(qu2, x) ==> q_done(qu1, x) || x == e,
        forall|x: RegLan| #[trigger] q_done(qu1, x) ==> q_done(qu2, x),
    ensures cw_frame(m, qu2, b, e), cur_partial(b, qu2.set@, e, 0), owned(m, e), b.id_map@.contains_key(e.expr),
        qu2.queue@.len() + 1 == qu1.queue@.len(),
{
    assert(qu1.queue@.contains(e));
    assert(qu1.set@.contains(e));
    assert forall|x: RegLan| #[trigger] qu2.queue@.contains(x) implies sic_fresh(b.states@[kid(b, x) as int]) by {
        let j = choose|j: int| 0 <= j < qu2.queue@.len() && qu2.queue@[j] == x;
        assert(qu1.queue@[j + 1] == x);
        assert(qu1.queue@.contains(x));
    }
}

// the term being expanded is fully recorded: back to the loop invariant
pub proof fn lemma_after_expand(m: ReManager, qu: BfsQueue<RegLan>, b: AutomatonBuilder<BaseRegLan>, e: RegLan)
    requires cw_frame(m, qu, b, e), st_done(b, qu.set@, e),
    ensures cw_inv2(m, qu, b),
{
}

// the derivative computed for a whole label is the derivative for each of its characters
pub proof fn lemma_range_deriv(d: RegLan, e: RegLan, cs: CharSet)
    requires forall|x: u32, w: Seq<u32>| #![trigger quot(e.expr, x, w)] cs_has(cs, x as int) ==> lang_k(d.expr, w) == quot(e.expr, x, w),
    ensures range_deriv(d, e, cs),
{
    assert forall|c: u32| #![trigger is_deriv(d, e, c)] cs_has(cs, c as int) && c <= MAX_CHAR implies is_deriv(d, e, c) by {
        assert forall|w: Seq<u32>| #![trigger lang_k(d.expr, w)] #![trigger quot(e.expr, c, w)] lang_k(d.expr, w) == quot(e.expr, c, w) by {}
    }
}

pub proof fn lemma_default_kept(b2: AutomatonBuilder<BaseRegLan>, b1: AutomatonBuilder<BaseRegLan>, s2: Set<RegLan>, s1: Set<RegLan>, e: RegLan)
    requires default_ok(b1, s1, e), ids_kept(b2, b1), b1.id_map@.contains_key(e.expr),
        forall|y: RegLan| s1.contains(y) ==> s2.contains(y),
        b2.states@[kid(b1, e) as int].default_successor == b1.states@[kid(b1, e) as int].default_successor,
    ensures default_ok(b2, s2, e),
{
    let q1 = b1.states@[kid(b1, e) as int];
    if cp_valid(dclass(e), ClassId::Complement) {
        let y = choose|y: RegLan| s1.contains(y) && b1.id_map@.contains_key(y.expr) && q1.default_successor == Some(kid(b1, y)) && #[trigger] is_class_deriv(y, e, ClassId::Complement);
        assert(s2.contains(y) && b2.id_map@.contains_key(y.expr) && kid(b2, y) == kid(b1, y));
    }
}

// when nothing is pending every allocated state is fully specified
pub proof fn lemma_all_acceptable(m: ReManager, qu: BfsQueue<RegLan>, b: AutomatonBuilder<BaseRegLan>)
    requires cw_inv2(m, qu, b), qu.queue@.len() == 0,
    ensures forall|q: int| 0 <= q < b.states@.len() ==> sic_acceptable(#[trigger] b.states@[q]),
{
    assert forall|q: int| 0 <= q < b.states@.len() implies sic_acceptable(#[trigger] b.states@[q]) by {
        assert(id_has_key(b.id_map@, q));
        let k = choose|k: BaseRegLan| b.id_map@.contains_key(k) && #[trigger] b.id_map@[k] == q;
        assert(key_has_term(qu.set@, k));
        let x = choose|x: RegLan| qu.set@.contains(x) && #[trigger] x.expr == k;
        assert(q_done(qu, x));
        assert(st_done(b, qu.set@, x));
    }
}

// ---- term-level view ----

pub proof fn lemma_tafter_pop(m: ReManager, qu1: BfsQueue<RegLan>, qu2: BfsQueue<RegLan>, e0: RegLan, e: RegLan)
    requires tcw_inv(m, qu1, e0), qu2.set@ == qu1.set@, qu2.set@.contains(e),
        forall|x: RegLan| #[trigger] q_done(qu2, x) ==> q_done(qu1, x) || x == e,
    ensures tcw_frame(m, qu2, e0, e), tpartial(m, qu2.set@, e, 0),
{
    lemma_sorted_len_nonneg(e);
}

pub proof fn lemma_sorted_len_nonneg(e: RegLan)
    ensures forall|cid: ClassId| cid_rank(dclass(e), cid) >= 0,
{
    assert forall|cid: ClassId| cid_rank(dclass(e), cid) >= 0 by {
        match cid { ClassId::Interval(i) => {}, ClassId::Complement => {} }
    }
}

pub proof fn lemma_tframe_step(m1: ReManager, m2: ReManager, qu1: BfsQueue<RegLan>, qu2: BfsQueue<RegLan>, e0: RegLan, e: RegLan, d: RegLan, cid: ClassId, k: int)
    requires tcw_frame(m1, qu1, e0, e), tpartial(m1, qu1.set@, e, k), grows(m2, m1), pushed(qu2, qu1, d),
        cp_valid(dclass(e), cid), cid_rank(dclass(e), cid) == k, tderiv(m2, e, cid, d),
    ensures tcw_frame(m2, qu2, e0, e), tpartial(m2, qu2.set@, e, k + 1),
{
    let s1 = qu1.set@;
    let s2 = qu2.set@;
    assert forall|x: RegLan| #[trigger] s2.contains(x) implies treach(m2, e0, x) by {
        if s1.contains(x) { lemma_treach_grows(m2, m1, e0, x); }
        else {
            assert(x == d);
            lemma_treach_grows(m2, m1, e0, e);
            lemma_treach_step(m2, e0, e, cid, d);
        }
    }
    assert forall|x: RegLan| #[trigger] q_done(qu2, x) && x != e implies tclosed_at(m2, s2, x) by {
        if !s1.contains(x) {
            assert(x == d);
            assert(qu2.queue@[qu1.queue@.len() as int] == d);
            assert(qu2.queue@.contains(d));
        } else {
            if qu1.queue@.contains(x) {
                let i = choose|i: int| 0 <= i < qu1.queue@.len() && qu1.queue@[i] == x;
                if qu2.queue@ != qu1.queue@ { assert(qu2.queue@[i] == x); }
                assert(qu2.queue@.contains(x));
            }
            assert(q_done(qu1, x));
            lemma_tclosed_mono(m2, m1, s1, s2, x);
        }
    }
    assert forall|cid2: ClassId| cp_valid(dclass(e), cid2) && cid_rank(dclass(e), cid2) < k + 1 implies #[trigger] has_tderiv_in(m2, s2, e, cid2) by {
        if cid_rank(dclass(e), cid2) == k {
            match cid { ClassId::Interval(i) => {}, ClassId::Complement => {} }
            match cid2 { ClassId::Interval(i) => {}, ClassId::Complement => {} }
            assert(cid2 == cid);
            assert(s2.contains(d));
        } else {
            assert(has_tderiv_in(m1, s1, e, cid2));
            assert(m1.deriv_cache@.contains_key(DerivKey(e, cid2)));
        }
    }
}

pub proof fn lemma_tafter_expand(m: ReManager, qu: BfsQueue<RegLan>, e0: RegLan, e: RegLan, k: int)
    requires tcw_frame(m, qu, e0, e), tpartial(m, qu.set@, e, k),
        k == dclass(e).list@.len() + 1 || (k == dclass(e).list@.len() && !cp_valid(dclass(e), ClassId::Complement)),
    ensures tcw_inv(m, qu, e0),
{
    assert forall|cid: ClassId| cp_valid(dclass(e), cid) implies #[trigger] has_tderiv_in(m, qu.set@, e, cid) by {
        match cid { ClassId::Interval(i) => {}, ClassId::Complement => {} }
    }
    assert(tclosed_at(m, qu.set@, e));
}

pub proof fn lemma_tcompiled(m: ReManager, qu: BfsQueue<RegLan>, e0: RegLan)
    requires tcw_inv(m, qu, e0), qu.queue@.len() == 0, qu.set@.contains(e0),
    ensures term_closure(m, e0, qu.set@),
{
    assert forall|x: RegLan| #[trigger] qu.set@.contains(x) implies tclosed_at(m, qu.set@, x) by {
        assert(q_done(qu, x));
    }
}
