// ---- powers of a language, free of the termination parameter ----
pub open spec fn pow(a: BaseRegLan, n: nat, w: Seq<u32>) -> bool
    decreases n,
{
    if n == 0 {
        w.len() == 0
    } else {
        exists|i: int| #![trigger wit(i)] 0 <= i <= w.len() && wit(i) && lang_k(a, w.subrange(0, i)) && pow(a, (n - 1) as nat, w.subrange(i, w.len() as int))
    }
}

pub proof fn lemma_pow_k(parent: BaseRegLan, a: BaseRegLan, n: nat, w: Seq<u32>)
    requires parent matches BaseRegLan::Loop(b, _) && b.expr == a,
    ensures pow_k(parent, a, n, w) == pow(a, n, w),
    decreases n,
{
    if n > 0 {
        assert forall|i: int| 0 <= i <= w.len() implies pow_k(parent, a, (n - 1) as nat, w.subrange(i, w.len() as int)) == pow(a, (n - 1) as nat, w.subrange(i, w.len() as int)) by {
            lemma_pow_k(parent, a, (n - 1) as nat, w.subrange(i, w.len() as int));
        }
        if pow_k(parent, a, n, w) {
            let i = choose|i: int| #![trigger wit(i)] 0 <= i <= w.len() && wit(i) && lang_k(a, w.subrange(0, i)) && pow_k(parent, a, (n - 1) as nat, w.subrange(i, w.len() as int));
            assert(wit(i) && lang_k(a, w.subrange(0, i)) && pow(a, (n - 1) as nat, w.subrange(i, w.len() as int)));
        }
        if pow(a, n, w) {
            let i = choose|i: int| #![trigger wit(i)] 0 <= i <= w.len() && wit(i) && lang_k(a, w.subrange(0, i)) && pow(a, (n - 1) as nat, w.subrange(i, w.len() as int));
            assert(wit(i) && lang_k(a, w.subrange(0, i)) && pow_k(parent, a, (n - 1) as nat, w.subrange(i, w.len() as int)));
        }
    }
}

// the language of a loop node, in terms of pow
pub proof fn lemma_loop_lang(a: RegLan, r: LoopRange, w: Seq<u32>)
    ensures lang_k(BaseRegLan::Loop(a, r), w) == (exists|n: int| #![trigger wit(n)] 0 <= n && wit(n) && lr_has(r, n) && pow(a.expr, n as nat, w)),
{
    let k = BaseRegLan::Loop(a, r);
    if lang_k(k, w) {
        let n = choose|n: int| #![trigger wit(n)] 0 <= n && wit(n) && lr_has(r, n) && pow_k(k, a.expr, n as nat, w);
        lemma_pow_k(k, a.expr, n as nat, w);
        assert(wit(n) && lr_has(r, n) && pow(a.expr, n as nat, w));
    }
    if exists|n: int| #![trigger wit(n)] 0 <= n && wit(n) && lr_has(r, n) && pow(a.expr, n as nat, w) {
        let n = choose|n: int| #![trigger wit(n)] 0 <= n && wit(n) && lr_has(r, n) && pow(a.expr, n as nat, w);
        lemma_pow_k(k, a.expr, n as nat, w);
        assert(wit(n) && lr_has(r, n) && pow_k(k, a.expr, n as nat, w));
    }
}

pub open spec fn eps() -> Seq<u32> { Seq::<u32>::empty() }

// ---- the empty word ----
pub proof fn lemma_eps_concat(a: RegLan, b: RegLan)
    ensures lang_k(BaseRegLan::Concat(a, b), eps()) == (lang_k(a.expr, eps()) && lang_k(b.expr, eps())),
{
    let w = eps();
    assert(w.subrange(0, 0) =~= w);
    if lang_k(a.expr, w) && lang_k(b.expr, w) {
        assert(wit(0));
    }
    if lang_k(BaseRegLan::Concat(a, b), w) {
        let i = choose|i: int| #![trigger wit(i)] 0 <= i <= w.len() && wit(i) && lang_k(a.expr, w.subrange(0, i)) && lang_k(b.expr, w.subrange(i, w.len() as int));
        assert(i == 0);
    }
}

pub proof fn lemma_eps_pow(a: BaseRegLan, n: nat)
    ensures pow(a, n, eps()) == (n == 0 || lang_k(a, eps())),
    decreases n,
{
    let w = eps();
    assert(w.subrange(0, 0) =~= w);
    if n > 0 {
        lemma_eps_pow(a, (n - 1) as nat);
        if lang_k(a, w) {
            assert(wit(0));
            assert(pow(a, (n - 1) as nat, w.subrange(0, 0)));
        }
        if pow(a, n, w) {
            let i = choose|i: int| #![trigger wit(i)] 0 <= i <= w.len() && wit(i) && lang_k(a, w.subrange(0, i)) && pow(a, (n - 1) as nat, w.subrange(i, w.len() as int));
            assert(i == 0);
        }
    }
}

pub proof fn lemma_eps_loop(a: RegLan, r: LoopRange)
    requires lr_wf(r),
    ensures lang_k(BaseRegLan::Loop(a, r), eps()) == (r.0 == 0 || lang_k(a.expr, eps())),
{
    let w = eps();
    lemma_loop_lang(a, r, w);
    if r.0 == 0 {
        lemma_eps_pow(a.expr, 0);
        assert(wit(0) && lr_has(r, 0));
    } else if lang_k(a.expr, w) {
        lemma_eps_pow(a.expr, r.0 as nat);
        assert(wit(r.0 as int) && lr_has(r, r.0 as int));
    }
    if exists|n: int| #![trigger wit(n)] 0 <= n && wit(n) && lr_has(r, n) && pow(a.expr, n as nat, w) {
        let n = choose|n: int| #![trigger wit(n)] 0 <= n && wit(n) && lr_has(r, n) && pow(a.expr, n as nat, w);
        lemma_eps_pow(a.expr, n as nat);
    }
}

// ---- term invariant ----
// (phase A) the attributes stored in a term agree with its language; sub-terms likewise
pub open spec fn re_ok(e: RE) -> bool
    decreases e,
{
    &&& e.nullable == lang_k(e.expr, eps())
    &&& cp_wf(*e.deriv_class)
    &&& uniform_k(e.expr, e.deriv_class.list@)
    &&& match e.expr {
        BaseRegLan::Empty => true,
        BaseRegLan::Epsilon => true,
        BaseRegLan::Range(c) => cs_wf(c),
        BaseRegLan::Concat(a, b) => re_ok(*a) && re_ok(*b),
        BaseRegLan::Loop(a, r) => re_ok(*a) && lr_wf(r) && !lr_is_zero(r),
        BaseRegLan::Complement(a) => re_ok(*a),
        BaseRegLan::Union(l) => forall|i: int| 0 <= i < l@.len() ==> re_ok(*#[trigger] l@[i]),
        BaseRegLan::Inter(l) => forall|i: int| 0 <= i < l@.len() ==> re_ok(*#[trigger] l@[i]),
    }
}

// the immediate sub-terms of node k are well-formed
pub open spec fn kids_ok(k: BaseRegLan) -> bool {
    match k {
        BaseRegLan::Empty => true,
        BaseRegLan::Epsilon => true,
        BaseRegLan::Range(c) => cs_wf(c),
        BaseRegLan::Concat(a, b) => re_ok(*a) && re_ok(*b),
        BaseRegLan::Loop(a, r) => re_ok(*a) && lr_wf(r) && !lr_is_zero(r),
        BaseRegLan::Complement(a) => re_ok(*a),
        BaseRegLan::Union(l) => forall|i: int| 0 <= i < l@.len() ==> re_ok(*#[trigger] l@[i]),
        BaseRegLan::Inter(l) => forall|i: int| 0 <= i < l@.len() ==> re_ok(*#[trigger] l@[i]),
    }
}

// ---- every language is a set of words over the alphabet ----
pub proof fn lemma_word_ok_concat(u: Seq<u32>, v: Seq<u32>)
    requires word_ok(u), word_ok(v),
    ensures word_ok(u + v),
{
    assert forall|i: int| 0 <= i < (u + v).len() implies #[trigger] (u + v)[i] <= MAX_CHAR by {
        if i < u.len() { assert((u + v)[i] == u[i]); } else { assert((u + v)[i] == v[i - u.len()]); }
    }
}

pub proof fn lemma_split(w: Seq<u32>, i: int)
    requires 0 <= i <= w.len(),
    ensures w.subrange(0, i) + w.subrange(i, w.len() as int) == w,
{
    assert(w.subrange(0, i) + w.subrange(i, w.len() as int) =~= w);
}

pub proof fn lemma_pow_word_ok(a: BaseRegLan, n: nat, w: Seq<u32>)
    requires pow(a, n, w), forall|u: Seq<u32>| #[trigger] lang_k(a, u) ==> word_ok(u),
    ensures word_ok(w),
    decreases n,
{
    if n > 0 {
        let i = choose|i: int| #![trigger wit(i)] 0 <= i <= w.len() && wit(i) && lang_k(a, w.subrange(0, i)) && pow(a, (n - 1) as nat, w.subrange(i, w.len() as int));
        lemma_pow_word_ok(a, (n - 1) as nat, w.subrange(i, w.len() as int));
        lemma_word_ok_concat(w.subrange(0, i), w.subrange(i, w.len() as int));
        lemma_split(w, i);
    }
}

pub proof fn lemma_lang_word_ok(k: BaseRegLan, w: Seq<u32>)
    requires lang_k(k, w),
    ensures word_ok(w),
    decreases k,
{
    match k {
        BaseRegLan::Concat(a, b) => {
            let i = choose|i: int| #![trigger wit(i)] 0 <= i <= w.len() && wit(i) && lang_k(a.expr, w.subrange(0, i)) && lang_k(b.expr, w.subrange(i, w.len() as int));
            lemma_lang_word_ok(a.expr, w.subrange(0, i));
            lemma_lang_word_ok(b.expr, w.subrange(i, w.len() as int));
            lemma_word_ok_concat(w.subrange(0, i), w.subrange(i, w.len() as int));
            lemma_split(w, i);
        },
        BaseRegLan::Loop(a, r) => {
            lemma_loop_lang(a, r, w);
            let n = choose|n: int| #![trigger wit(n)] 0 <= n && wit(n) && lr_has(r, n) && pow(a.expr, n as nat, w);
            assert forall|u: Seq<u32>| #[trigger] lang_k(a.expr, u) implies word_ok(u) by { lemma_lang_word_ok(a.expr, u); }
            lemma_pow_word_ok(a.expr, n as nat, w);
        },
        BaseRegLan::Union(l) => {
            let i = choose|i: int| #![trigger wit(i)] 0 <= i < l@.len() && wit(i) && lang_k(l@[i].expr, w);
            lemma_lang_word_ok(l@[i].expr, w);
        },
        _ => {},
    }
}

// complement is an involution on languages
pub proof fn lemma_complement_lang(a: RegLan, w: Seq<u32>)
    ensures lang_k(BaseRegLan::Complement(a), w) == (word_ok(w) && !lang_k(a.expr, w)),
        (word_ok(w) && !lang_k(BaseRegLan::Complement(a), w)) == lang_k(a.expr, w),
{
    if lang_k(a.expr, w) { lemma_lang_word_ok(a.expr, w); }
}

// ---- Sigma* and Sigma+ ----
pub open spec fn is_sigma(a: BaseRegLan) -> bool {
    a matches BaseRegLan::Range(c) && c.start == 0 && c.end == MAX_CHAR
}

pub proof fn lemma_sigma_pow(a: BaseRegLan, n: nat, w: Seq<u32>)
    requires is_sigma(a),
    ensures pow(a, n, w) == (word_ok(w) && w.len() == n),
    decreases n,
{
    if n > 0 {
        if pow(a, n, w) {
            let i = choose|i: int| #![trigger wit(i)] 0 <= i <= w.len() && wit(i) && lang_k(a, w.subrange(0, i)) && pow(a, (n - 1) as nat, w.subrange(i, w.len() as int));
            lemma_sigma_pow(a, (n - 1) as nat, w.subrange(i, w.len() as int));
            assert(i == 1);
            lemma_word_ok_concat(w.subrange(0, i), w.subrange(i, w.len() as int));
            lemma_split(w, i);
        }
        if word_ok(w) && w.len() == n {
            let u = w.subrange(0, 1);
            let v = w.subrange(1, w.len() as int);
            assert(u[0] == w[0]);
            assert forall|j: int| 0 <= j < v.len() implies #[trigger] v[j] <= MAX_CHAR by { assert(v[j] == w[j + 1]); }
            lemma_sigma_pow(a, (n - 1) as nat, v);
            assert(wit(1) && lang_k(a, u) && pow(a, (n - 1) as nat, v));
        }
    }
}

pub proof fn lemma_sigma_loop(sigma: RegLan, r: LoopRange, w: Seq<u32>)
    requires is_sigma(sigma.expr),
    ensures lang_k(BaseRegLan::Loop(sigma, r), w) == (word_ok(w) && lr_has(r, w.len() as int)),
{
    lemma_loop_lang(sigma, r, w);
    if word_ok(w) && lr_has(r, w.len() as int) {
        lemma_sigma_pow(sigma.expr, w.len(), w);
        assert(wit(w.len() as int));
    }
    if exists|n: int| #![trigger wit(n)] 0 <= n && wit(n) && lr_has(r, n) && pow(sigma.expr, n as nat, w) {
        let n = choose|n: int| #![trigger wit(n)] 0 <= n && wit(n) && lr_has(r, n) && pow(sigma.expr, n as nat, w);
        lemma_sigma_pow(sigma.expr, n as nat, w);
    }
}
