pub proof fn lemma_grows_refl(m: ReManager)
    ensures grows(m, m),
{
}

pub proof fn lemma_grows_trans(m3: ReManager, m2: ReManager, m1: ReManager)
    requires grows(m3, m2), grows(m2, m1),
    ensures grows(m3, m1),
{
    assert forall|i: int| 0 <= i < m1.store.terms@.len() implies #[trigger] m3.store.terms@[i] == m1.store.terms@[i] by {
        assert(m2.store.terms@[i] == m1.store.terms@[i]);
    }
    assert forall|k: DerivKey| #[trigger] m1.deriv_cache@.contains_key(k) implies m3.deriv_cache@.contains_key(k) && m3.deriv_cache@[k] == m1.deriv_cache@[k] by {
        assert(m2.deriv_cache@.contains_key(k));
    }
}

pub proof fn lemma_tderiv_grows(m2: ReManager, m1: ReManager, x: RegLan, cid: ClassId, y: RegLan)
    requires grows(m2, m1), tderiv(m1, x, cid, y),
    ensures tderiv(m2, x, cid, y),
{
    assert(m1.deriv_cache@.contains_key(DerivKey(x, cid)));
}


// the i-th interval of a well-formed partition belongs to class Interval(i) and to no other
pub proof fn lemma_own_class_id(p: CharPartition, i: int, cid: ClassId)
    requires cp_wf(p), 0 <= i < p.list@.len(), cp_is_class(p, p.list@[i].start as int, cid),
    ensures cid == ClassId::Interval(i as usize),
{
    let x = p.list@[i].start as int;
    assert(cs_wf(p.list@[i]));
    assert(cs_has(p.list@[i], x));
    match cid {
        ClassId::Interval(k) => {
            if (k as int) < i { assert(p.list@[k as int].end < p.list@[i].start); }
            else if (k as int) > i { assert(p.list@[i].end < p.list@[k as int].start); }
        }
        ClassId::Complement => { assert(cl_in(p.list@, x)); }
    }
}

pub proof fn lemma_extends_grows(m2: ReManager, m1: ReManager)
    requires mgr_extends(m2, m1),
    ensures grows(m2, m1),
{
}

pub proof fn lemma_owned_grows(m2: ReManager, m1: ReManager, e: RegLan)
    requires grows(m2, m1), owned(m1, e),
    ensures owned(m2, e),
{
    assert(m2.store.terms@[e.id as int] == m1.store.terms@[e.id as int]);
}

// a constructor call (terms grow, cache untouched) keeps the cache invariant
pub proof fn lemma_cache_extends(m2: ReManager, m1: ReManager)
    requires mgr_extends(m2, m1), cache_ok(m1),
    ensures cache_ok(m2),
{
    assert forall|key: DerivKey| #[trigger] m2.deriv_cache@.contains_key(key) implies
        owned(m2, key.0) && cp_valid(*key.0.deriv_class, key.1) && owned(m2, m2.deriv_cache@[key]) && is_class_deriv(m2.deriv_cache@[key], key.0, key.1) by {
        assert(m1.deriv_cache@.contains_key(key));
        lemma_owned_extends(m2, m1, key.0);
        lemma_owned_extends(m2, m1, m1.deriv_cache@[key]);
    }
}

// characters of one class have the same quotient (from the term invariant)
pub proof fn lemma_class_uniform(e: RegLan, x: u32, y: u32, cid: ClassId, w: Seq<u32>)
    requires re_ok(*e), in_class(e, x, cid), in_class(e, y, cid),
    ensures quot(e.expr, x, w) == quot(e.expr, y, w),
{
    let l = e.deriv_class.list@;
    assert(cl_same(l, x as int, y as int)) by {
        assert forall|i: int| 0 <= i < l.len() implies cs_has(#[trigger] l[i], x as int) == cs_has(l[i], y as int) by {
            match cid {
                ClassId::Interval(k) => {
                    if i < k as int { assert(l[i].end < l[k as int].start); }
                    if (k as int) < i { assert(l[k as int].end < l[i].start); }
                },
                ClassId::Complement => {
                    if cs_has(l[i], x as int) { assert(cl_in(l, x as int)); }
                    if cs_has(l[i], y as int) { assert(cl_in(l, y as int)); }
                },
            }
        }
    }
    assert(uniform_k(e.expr, l));
}

// facts to carry across a final constructor call (which only extends the term table)
pub proof fn lemma_tail(mcur: ReManager, m0: ReManager)
    requires cache_ok(mcur), grows(mcur, m0),
    ensures forall|m2: ReManager| #[trigger] mgr_extends(m2, mcur) ==> cache_ok(m2) && grows(m2, m0),
{
    assert forall|m2: ReManager| #[trigger] mgr_extends(m2, mcur) implies cache_ok(m2) && grows(m2, m0) by {
        lemma_cache_extends(m2, mcur);
        lemma_extends_grows(m2, mcur);
        lemma_grows_trans(m2, mcur, m0);
    }
}

pub proof fn lemma_all_owned_grows(m2: ReManager, m1: ReManager, v: Seq<RegLan>)
    requires grows(m2, m1), all_owned(m1, v),
    ensures all_owned(m2, v),
{
    assert forall|i: int| 0 <= i < v.len() implies owned(m2, #[trigger] v[i]) by { lemma_owned_grows(m2, m1, v[i]); }
}

// derivative of an intersection / union, from the derivatives of the operands
pub proof fn lemma_quot_setop(b: Box<[RegLan]>, d: Seq<RegLan>, c: u32, w: Seq<u32>, is_union: bool)
    requires c <= MAX_CHAR, d.len() == b@.len(), forall|i: int| 0 <= i < b@.len() ==> is_deriv(#[trigger] d[i], b@[i], c),
    ensures !is_union ==> inter_all(d, w) == quot(BaseRegLan::Inter(b), c, w),
        is_union ==> union_all(d, w) == quot(BaseRegLan::Union(b), c, w),
{
    lemma_word_ok_cons(c, w);
    let cw = seq![c] + w;
    assert forall|i: int| 0 <= i < b@.len() implies lang_k(d[i].expr, w) == lang_k(b@[i].expr, cw) by {
        assert(is_deriv(d[i], b@[i], c));
        assert(lang_k(d[i].expr, w) == quot(b@[i].expr, c, w));
    }
    if !is_union {
        if inter_all(d, w) {
            assert forall|i: int| #![trigger wit(i)] 0 <= i < b@.len() && wit(i) implies lang_k(b@[i].expr, cw) by {}
        }
        if quot(BaseRegLan::Inter(b), c, w) {
            assert forall|i: int| #![trigger wit(i)] 0 <= i < d.len() && wit(i) implies lang_k(d[i].expr, w) by {}
        }
    } else {
        if union_all(d, w) {
            let i = choose|i: int| #![trigger wit(i)] 0 <= i < d.len() && wit(i) && lang_k(d[i].expr, w);
            assert(wit(i) && lang_k(b@[i].expr, cw));
        }
        if quot(BaseRegLan::Union(b), c, w) {
            let i = choose|i: int| #![trigger wit(i)] 0 <= i < b@.len() && wit(i) && lang_k(b@[i].expr, cw);
            assert(wit(i) && lang_k(d[i].expr, w));
        }
    }
}

pub proof fn lemma_cons_assoc(c: u32, u: Seq<u32>, w: Seq<u32>)
    ensures (u.push(c)) + w == u + (seq![c] + w),
{
    assert((u.push(c)) + w =~= u + (seq![c] + w));
}
