// lemmas connecting the comparisons CharSet performs with the set-theoretic facts
pub open spec fn cs_in_union(a: CharSet, b: CharSet, x: int) -> bool {
    cs_has(a, x) || cs_has(b, x)
}

// the union of two intervals is an interval iff it is convex
pub open spec fn cs_union_is_interval(a: CharSet, b: CharSet) -> bool {
    forall|x: int, y: int, z: int| x <= y <= z && #[trigger] cs_in_union(a, b, x) && #[trigger] cs_in_union(a, b, z) ==> #[trigger] cs_in_union(a, b, y)
}

pub proof fn lemma_covers(a: CharSet, b: CharSet)
    requires cs_wf(b),
    ensures (a.start <= b.start && b.end <= a.end) == (forall|x: int| cs_has(b, x) ==> cs_has(a, x)),
{
    if forall|x: int| cs_has(b, x) ==> cs_has(a, x) {
        assert(cs_has(b, b.start as int));
        assert(cs_has(b, b.end as int));
    }
}

pub proof fn lemma_before(a: CharSet, x: int)
    requires cs_wf(a),
    ensures (a.end < x) == (forall|y: int| cs_has(a, y) ==> y < x),
{
    if forall|y: int| cs_has(a, y) ==> y < x {
        assert(cs_has(a, a.end as int));
    }
}

pub proof fn lemma_after(a: CharSet, x: int)
    requires cs_wf(a),
    ensures (x < a.start) == (forall|y: int| cs_has(a, y) ==> x < y),
{
    if forall|y: int| cs_has(a, y) ==> x < y {
        assert(cs_has(a, a.start as int));
    }
}

pub proof fn lemma_alphabet(a: CharSet)
    requires cs_wf(a),
    ensures (a.start == 0 && a.end == MAX_CHAR) == (forall|x: int| 0 <= x <= MAX_CHAR ==> cs_has(a, x)),
{
    if forall|x: int| 0 <= x <= MAX_CHAR ==> cs_has(a, x) {
        assert(cs_has(a, 0));
        assert(cs_has(a, MAX_CHAR as int));
    }
}

pub proof fn lemma_inter(a: CharSet, b: CharSet)
    requires cs_wf(a), cs_wf(b),
    ensures
        ({
            let lo = if a.start >= b.start { a.start } else { b.start };
            let hi = if a.end <= b.end { a.end } else { b.end };
            &&& (lo > hi) == (forall|x: int| !(cs_has(a, x) && cs_has(b, x)))
            &&& forall|x: int| (lo <= x <= hi) == (cs_has(a, x) && cs_has(b, x))
        }),
{
    let lo = if a.start >= b.start { a.start } else { b.start };
    let hi = if a.end <= b.end { a.end } else { b.end };
    if lo <= hi {
        assert(cs_has(a, lo as int) && cs_has(b, lo as int));
    }
}

pub proof fn lemma_union_convex(a: CharSet, b: CharSet)
    requires cs_wf(a), cs_wf(b),
    ensures cs_union_is_interval(a, b) == !(a.end + 1 < b.start || b.end + 1 < a.start),
{
    if a.end + 1 < b.start {
        assert(cs_in_union(a, b, a.end as int));
        assert(cs_in_union(a, b, b.start as int));
        assert(!cs_in_union(a, b, a.end + 1));
    } else if b.end + 1 < a.start {
        assert(cs_in_union(a, b, b.end as int));
        assert(cs_in_union(a, b, a.start as int));
        assert(!cs_in_union(a, b, b.end + 1));
    } else {
        assert forall|x: int, y: int, z: int| x <= y <= z && #[trigger] cs_in_union(a, b, x) && #[trigger] cs_in_union(a, b, z) implies #[trigger] cs_in_union(a, b, y) by {}
    }
}

pub proof fn lemma_upto_step(a: Seq<CharSet>, k: int, x: int)
    requires 0 <= k < a.len(),
    ensures cs_all_have_upto(a, k + 1, x) == (cs_all_have_upto(a, k, x) && cs_has(a[k], x)),
{
}
