// ---- left quotients (Brzozowski derivatives), spec level ----
// w is in the left quotient of L(k) by character c
pub open spec fn quot(k: BaseRegLan, c: u32, w: Seq<u32>) -> bool {
    lang_k(k, seq![c] + w)
}

pub proof fn lemma_cons_split(c: u32, w: Seq<u32>, j: int)
    requires 1 <= j <= w.len() + 1,
    ensures (seq![c] + w).subrange(0, j) == seq![c] + w.subrange(0, j - 1),
        (seq![c] + w).subrange(j, (seq![c] + w).len() as int) == w.subrange(j - 1, w.len() as int),
        (seq![c] + w).subrange(0, 0) == eps(),
        (seq![c] + w).subrange(0, (seq![c] + w).len() as int) == seq![c] + w,
{
    let cw = seq![c] + w;
    assert(cw.subrange(0, j) =~= seq![c] + w.subrange(0, j - 1));
    assert(cw.subrange(j, cw.len() as int) =~= w.subrange(j - 1, w.len() as int));
    assert(cw.subrange(0, 0) =~= eps());
    assert(cw.subrange(0, cw.len() as int) =~= cw);
}

pub proof fn lemma_quot_range(r: CharSet, c: u32, w: Seq<u32>)
    ensures quot(BaseRegLan::Range(r), c, w) == (w.len() == 0 && cs_has(r, c as int) && c <= MAX_CHAR),
{
    let cw = seq![c] + w;
    assert(cw.len() == w.len() + 1);
    assert(cw[0] == c);
}

// quotient of a concatenation: c is consumed by the first factor, or the first factor is nullable
pub open spec fn quot_cat(a: BaseRegLan, b: BaseRegLan, c: u32, w: Seq<u32>) -> bool {
    (exists|i: int| #![trigger wit(i)] 0 <= i <= w.len() && wit(i) && quot(a, c, w.subrange(0, i)) && lang_k(b, w.subrange(i, w.len() as int)))
        || (lang_k(a, eps()) && quot(b, c, w))
}

pub proof fn lemma_quot_cat(a: BaseRegLan, b: BaseRegLan, c: u32, w: Seq<u32>)
    ensures in_cat(a, b, seq![c] + w) == quot_cat(a, b, c, w),
{
    let cw = seq![c] + w;
    if in_cat(a, b, cw) {
        let j = choose|j: int| #![trigger wit(j)] 0 <= j <= cw.len() && wit(j) && lang_k(a, cw.subrange(0, j)) && lang_k(b, cw.subrange(j, cw.len() as int));
        if j == 0 {
            lemma_cons_split(c, w, 1);
        } else {
            lemma_cons_split(c, w, j);
            assert(wit(j - 1));
        }
    }
    if quot_cat(a, b, c, w) {
        if exists|i: int| #![trigger wit(i)] 0 <= i <= w.len() && wit(i) && quot(a, c, w.subrange(0, i)) && lang_k(b, w.subrange(i, w.len() as int)) {
            let i = choose|i: int| #![trigger wit(i)] 0 <= i <= w.len() && wit(i) && quot(a, c, w.subrange(0, i)) && lang_k(b, w.subrange(i, w.len() as int));
            lemma_cons_split(c, w, i + 1);
            assert(wit(i + 1));
        } else {
            lemma_cons_split(c, w, 1);
            assert(wit(0));
        }
    }
}

// padding a power with the empty word
pub proof fn lemma_pow_pad(a: BaseRegLan, m: nat, v: Seq<u32>)
    requires lang_k(a, eps()), pow(a, m, v),
    ensures pow(a, m + 1, v),
{
    assert(v.subrange(0, 0) =~= eps());
    assert(v.subrange(0, v.len() as int) =~= v);
    assert(wit(0));
    assert(((m + 1) - 1) as nat == m);
}

// quotient of a power: for n >= 1, c.w in a^n iff w = u.v with c.u in a and v in a^(n-1)
pub open spec fn quot_pow(a: BaseRegLan, n1: nat, c: u32, w: Seq<u32>) -> bool {
    exists|i: int| #![trigger wit(i)] 0 <= i <= w.len() && wit(i) && quot(a, c, w.subrange(0, i)) && pow(a, n1, w.subrange(i, w.len() as int))
}

pub proof fn lemma_quot_pow(a: BaseRegLan, n: nat, c: u32, w: Seq<u32>)
    ensures n == 0 ==> !pow(a, n, seq![c] + w),
        n >= 1 ==> pow(a, n, seq![c] + w) == quot_pow(a, (n - 1) as nat, c, w),
    decreases n,
{
    let cw = seq![c] + w;
    if n >= 1 {
        let n1 = (n - 1) as nat;
        if pow(a, n, cw) {
            let j = choose|j: int| #![trigger wit(j)] 0 <= j <= cw.len() && wit(j) && lang_k(a, cw.subrange(0, j)) && pow(a, n1, cw.subrange(j, cw.len() as int));
            if j == 0 {
                lemma_cons_split(c, w, 1);
                // a is nullable and c.w is in a^(n-1)
                lemma_quot_pow(a, n1, c, w);
                assert(n1 >= 1);
                let i = choose|i: int| #![trigger wit(i)] 0 <= i <= w.len() && wit(i) && quot(a, c, w.subrange(0, i)) && pow(a, (n1 - 1) as nat, w.subrange(i, w.len() as int));
                lemma_pow_pad(a, (n1 - 1) as nat, w.subrange(i, w.len() as int));
                assert((((n1 - 1) as nat) + 1) as nat == n1);
                assert(wit(i));
            } else {
                lemma_cons_split(c, w, j);
                assert(wit(j - 1));
            }
        }
        if quot_pow(a, n1, c, w) {
            let i = choose|i: int| #![trigger wit(i)] 0 <= i <= w.len() && wit(i) && quot(a, c, w.subrange(0, i)) && pow(a, n1, w.subrange(i, w.len() as int));
            lemma_pow_intro(a, n1, seq![c] + w.subrange(0, i), w.subrange(i, w.len() as int));
            lemma_split(w, i);
            assert((seq![c] + w.subrange(0, i)) + w.subrange(i, w.len() as int) =~= cw);
            assert((n1 + 1) as nat == n);
        }
    }
}

// quotient of a loop: D_c(a^[r]) = D_c(a) . a^[r'] where r' holds n iff r holds n+1
pub open spec fn quot_loop(a: BaseRegLan, r1: LoopRange, c: u32, w: Seq<u32>) -> bool {
    exists|i: int| #![trigger wit(i)] 0 <= i <= w.len() && wit(i) && quot(a, c, w.subrange(0, i)) && in_loop(a, r1, w.subrange(i, w.len() as int))
}

pub proof fn lemma_quot_loop(a: BaseRegLan, r: LoopRange, r1: LoopRange, c: u32, w: Seq<u32>)
    requires forall|n: int| n >= 0 ==> lr_has(r1, n) == lr_has(r, n + 1),
    ensures in_loop(a, r, seq![c] + w) == quot_loop(a, r1, c, w),
{
    let cw = seq![c] + w;
    if in_loop(a, r, cw) {
        let n = choose|n: int| #![trigger wit(n)] 0 <= n && wit(n) && lr_has(r, n) && pow(a, n as nat, cw);
        lemma_quot_pow(a, n as nat, c, w);
        assert(n >= 1);
        let i = choose|i: int| #![trigger wit(i)] 0 <= i <= w.len() && wit(i) && quot(a, c, w.subrange(0, i)) && pow(a, (n - 1) as nat, w.subrange(i, w.len() as int));
        assert(wit(n - 1) && lr_has(r1, n - 1));
        assert(in_loop(a, r1, w.subrange(i, w.len() as int)));
        assert(wit(i));
    }
    if quot_loop(a, r1, c, w) {
        let i = choose|i: int| #![trigger wit(i)] 0 <= i <= w.len() && wit(i) && quot(a, c, w.subrange(0, i)) && in_loop(a, r1, w.subrange(i, w.len() as int));
        let v = w.subrange(i, w.len() as int);
        let m = choose|m: int| #![trigger wit(m)] 0 <= m && wit(m) && lr_has(r1, m) && pow(a, m as nat, v);
        lemma_quot_pow(a, (m + 1) as nat, c, w);
        assert(((m + 1) - 1) as nat == m as nat);
        assert(wit(i));
        assert(quot_pow(a, m as nat, c, w));
        assert(wit(m + 1) && lr_has(r, m + 1));
    }
}

pub proof fn lemma_quot_complement(a: RegLan, c: u32, w: Seq<u32>)
    requires c <= MAX_CHAR,
    ensures quot(BaseRegLan::Complement(a), c, w) == (word_ok(w) && !quot(a.expr, c, w)),
{
    let cw = seq![c] + w;
    if word_ok(w) {
        assert forall|i: int| 0 <= i < cw.len() implies #[trigger] cw[i] <= MAX_CHAR by { if i > 0 { assert(cw[i] == w[i - 1]); } }
    }
    if word_ok(cw) {
        assert forall|i: int| 0 <= i < w.len() implies #[trigger] w[i] <= MAX_CHAR by { assert(cw[i + 1] == w[i]); }
    }
}

pub proof fn lemma_word_ok_cons(c: u32, w: Seq<u32>)
    ensures word_ok(seq![c] + w) == (c <= MAX_CHAR && word_ok(w)),
{
    let cw = seq![c] + w;
    assert(cw[0] == c);
    if c <= MAX_CHAR && word_ok(w) {
        assert forall|i: int| 0 <= i < cw.len() implies #[trigger] cw[i] <= MAX_CHAR by { if i > 0 { assert(cw[i] == w[i - 1]); } }
    }
    if word_ok(cw) {
        assert forall|i: int| 0 <= i < w.len() implies #[trigger] w[i] <= MAX_CHAR by { assert(cw[i + 1] == w[i]); }
    }
}
