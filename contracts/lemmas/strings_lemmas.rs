pub proof fn lemma_first_occ_unique(p: Seq<u32>, s: Seq<u32>, k: int, n1: int, n2: int)
    requires is_first_occ(p, s, k, n1), is_first_occ(p, s, k, n2),
    ensures n1 == n2,
{
    if n1 < n2 { assert(!occurs_at(p, s, n1)); }
    if n2 < n1 { assert(!occurs_at(p, s, n2)); }
}

pub proof fn lemma_first_occ_found(p: Seq<u32>, s: Seq<u32>, k: int, n: int)
    requires is_first_occ(p, s, k, n),
    ensures first_occ(p, s, k) == n,
{
    let m = choose|m: int| is_first_occ(p, s, k, m);
    lemma_first_occ_unique(p, s, k, n, m);
}

pub proof fn lemma_first_occ_none(p: Seq<u32>, s: Seq<u32>, k: int)
    requires no_occ_from(p, s, k),
    ensures first_occ(p, s, k) == -1,
{
    if exists|n: int| is_first_occ(p, s, k, n) {
        let n = choose|n: int| is_first_occ(p, s, k, n);
        assert(occurs_at(p, s, n));
    }
}

pub proof fn lemma_replace_found(s: Seq<u32>, t: Seq<u32>, t2: Seq<u32>, i: int, r: Seq<u32>)
    requires is_first_occ(t, s, 0, i), r == s.subrange(0, i) + t2 + s.subrange(i + t.len(), s.len() as int),
    ensures smt_replace_is(s, t, t2, r),
{
    assert(occurs_at(t, s, i));
    assert forall|n: int| is_first_occ(t, s, 0, n) implies r == s.subrange(0, n) + t2 + s.subrange(n + t.len(), s.len() as int) by {
        lemma_first_occ_unique(t, s, 0, i, n);
    }
}

pub proof fn lemma_replace_none(s: Seq<u32>, t: Seq<u32>, t2: Seq<u32>)
    requires no_occ_from(t, s, 0),
    ensures smt_replace_is(s, t, t2, s),
{
    assert forall|n: int| is_first_occ(t, s, 0, n) implies s == s.subrange(0, n) + t2 + s.subrange(n + t.len(), s.len() as int) by {
        assert(occurs_at(t, s, n));
    }
}

pub proof fn lemma_replace_all_step(s: Seq<u32>, t: Seq<u32>, t2: Seq<u32>, k: int, n: int)
    requires 0 <= k, is_first_occ(t, s, k, n), t.len() > 0,
    ensures smt_replace_all_from(s, t, t2, k) == s.subrange(k, n) + t2 + smt_replace_all_from(s, t, t2, n + t.len()),
{
    lemma_first_occ_found(t, s, k, n);
}

pub proof fn lemma_replace_all_done(s: Seq<u32>, t: Seq<u32>, t2: Seq<u32>, k: int)
    requires 0 <= k <= s.len(), no_occ_from(t, s, k),
    ensures smt_replace_all_from(s, t, t2, k) == s.subrange(k, s.len() as int),
{
    lemma_first_occ_none(t, s, k);
}

pub proof fn lemma_good_concat(a: Seq<u32>, b: Seq<u32>)
    requires ss_good(a), ss_good(b),
    ensures ss_good(a + b),
{
    assert forall|i: int| 0 <= i < (a + b).len() implies #[trigger] (a + b)[i] <= MAX_CHAR by {
        if i < a.len() { assert((a + b)[i] == a[i]); } else { assert((a + b)[i] == b[i - a.len()]); }
    }
}

pub proof fn lemma_good_subrange(a: Seq<u32>, i: int, j: int)
    requires ss_good(a), 0 <= i <= j <= a.len(),
    ensures ss_good(a.subrange(i, j)),
{
    assert forall|k: int| 0 <= k < a.subrange(i, j).len() implies #[trigger] a.subrange(i, j)[k] <= MAX_CHAR by {
        assert(a.subrange(i, j)[k] == a[i + k]);
    }
}

// ---- lexicographic order ----
pub proof fn lemma_lex_prefix(v: Seq<u32>, w: Seq<u32>, i: int)
    requires 0 <= i <= v.len(), i <= w.len(), forall|t: int| 0 <= t < i ==> v[t] == w[t],
    ensures lex_lt(v, w) == lex_lt(v.subrange(i, v.len() as int), w.subrange(i, w.len() as int)),
    decreases i,
{
    if i == 0 {
        assert(v.subrange(0, v.len() as int) =~= v);
        assert(w.subrange(0, w.len() as int) =~= w);
    } else {
        let v1 = v.subrange(1, v.len() as int);
        let w1 = w.subrange(1, w.len() as int);
        assert(v[0] == w[0]);
        assert(lex_lt(v, w) == lex_lt(v1, w1));
        assert forall|t: int| 0 <= t < i - 1 implies v1[t] == w1[t] by { assert(v[t + 1] == w[t + 1]); }
        lemma_lex_prefix(v1, w1, i - 1);
        assert(v1.subrange(i - 1, v1.len() as int) =~= v.subrange(i, v.len() as int));
        assert(w1.subrange(i - 1, w1.len() as int) =~= w.subrange(i, w.len() as int));
    }
}

// the value the comparison loops of vector_lt / vector_le compute
pub proof fn lemma_lex_decide(v: Seq<u32>, w: Seq<u32>, i: int)
    requires 0 <= i <= v.len(), i <= w.len(), forall|t: int| 0 <= t < i ==> v[t] == w[t],
        i == v.len() || i == w.len() || v[i] != w[i],
    ensures
        lex_lt(v, w) == (if i == v.len() || i == w.len() { v.len() < w.len() } else { v[i] < w[i] }),
        (v =~= w) == (i == v.len() && i == w.len()),
{
    lemma_lex_prefix(v, w, i);
    let vs = v.subrange(i, v.len() as int);
    let ws = w.subrange(i, w.len() as int);
    if i < v.len() && i < w.len() {
        assert(vs[0] == v[i] && ws[0] == w[i]);
    }
}

// ---- decimal digits ----
pub proof fn lemma_digits_step(s: Seq<u32>, k: int)
    requires 0 <= k < s.len(),
    ensures digits_val(s.subrange(0, k + 1)) == 10 * digits_val(s.subrange(0, k)) + (s[k] - 0x30),
{
    let t = s.subrange(0, k + 1);
    assert(t.subrange(0, t.len() - 1) =~= s.subrange(0, k));
    assert(t[t.len() - 1] == s[k]);
}

pub proof fn lemma_digits_nonneg(s: Seq<u32>)
    requires all_digits(s),
    ensures digits_val(s) >= 0,
    decreases s.len(),
{
    if s.len() > 0 {
        let t = s.subrange(0, s.len() - 1);
        assert forall|i: int| 0 <= i < t.len() implies is_digit(#[trigger] t[i]) by { assert(t[i] == s[i]); }
        lemma_digits_nonneg(t);
        assert(is_digit(s[s.len() - 1]));
    }
}

// canonical decimal numeral of n >= 0 (what str.from_int denotes)
pub open spec fn dec_digits(n: int) -> Seq<u32>
    decreases n,
{
    if n < 10 { seq![(0x30 + (if n < 0 { 0 } else { n })) as u32] } else { dec_digits(n / 10).push((0x30 + n % 10) as u32) }
}

pub open spec fn smt_from_int(n: int) -> Seq<u32> { if n >= 0 { dec_digits(n) } else { Seq::<u32>::empty() } }

// str.to_int(str.from_int(n)) == n for n >= 0 (a lemma over the two specs)
pub proof fn lemma_to_int_from_int(n: int)
    requires n >= 0,
    ensures all_digits(dec_digits(n)), dec_digits(n).len() > 0, digits_val(dec_digits(n)) == n, smt_to_int(smt_from_int(n)) == n, // @ob roundtrip.to_int_from_int
    decreases n,
{
    if n < 10 {
        let s = dec_digits(n);
        assert(s.subrange(0, 0).len() == 0);
        assert(digits_val(s.subrange(0, s.len() - 1)) == 0);
    } else {
        lemma_to_int_from_int(n / 10);
        let p = dec_digits(n / 10);
        let s = p.push((0x30 + n % 10) as u32);
        assert(s.subrange(0, s.len() - 1) =~= p);
        assert forall|i: int| 0 <= i < s.len() implies is_digit(#[trigger] s[i]) by {
            if i < p.len() { assert(s[i] == p[i]); }
        }
    }
}

pub proof fn lemma_to_code_from_code(x: int)
    requires 0 <= x <= MAX_CHAR,
    ensures smt_to_code(smt_from_code(x)) == x, // @ob roundtrip.to_code_from_code
{
}

pub proof fn lemma_digits_good(s: Seq<u32>)
    requires all_digits(s),
    ensures ss_good(s),
{
    assert forall|i: int| 0 <= i < s.len() implies #[trigger] s[i] <= MAX_CHAR by { assert(is_digit(s[i])); }
}
