// text-independent shape of the automaton (what makes its asserts/unwraps safe)
pub open spec fn pa_local(pa: ParsingAutomaton) -> bool {
    let p = pa.pending_idx as int;
    &&& match pa.state {
        State::Init => p == 0 && pa.escape_code == 0,
        State::AfterSlash => p == 1 && pa.escape_code == 0,
        State::AfterSlashU => p == 2 && pa.escape_code == 0,
        State::AfterSlashUHex => 3 <= p <= 5 && pa.escape_code < 0x10000,
        State::AfterSlashUBrace => 3 <= p <= 8 && pa.escape_code < 0x100000,
    }
}

pub open spec fn no_esc_at(t: Seq<char>, q: int) -> bool {
    !esc4_at(t, q) && !escb_at(t, q, 1) && !escb_at(t, q, 2) && !escb_at(t, q, 3) && !escb_at(t, q, 4) && !escb_at(t, q, 5)
}

// the characters t[i..n) taken literally
pub open spec fn lit_chars(t: Seq<char>, i: int, n: int) -> Seq<u32> {
    Seq::new((n - i) as nat, |j: int| lit_clean(t[i + j]))
}

pub proof fn lemma_seq_assoc(a: Seq<u32>, b: Seq<u32>, c: Seq<u32>)
    ensures (a + b) + c == a + (b + c),
{
    assert((a + b) + c =~= a + (b + c));
}

pub proof fn lemma_single(t: Seq<char>, i: int)
    requires 0 <= i < t.len(), no_esc_at(t, i),
    ensures lit_parse_from(t, i) == seq![lit_clean(t[i])] + lit_parse_from(t, i + 1),
{
}

pub proof fn lemma_plain(t: Seq<char>, i: int)
    requires 0 <= i < t.len(), t[i] != '\\',
    ensures no_esc_at(t, i), lit_parse_from(t, i) == seq![lit_clean(t[i])] + lit_parse_from(t, i + 1),
{
}

pub proof fn lemma_plain_run(t: Seq<char>, i: int, n: int)
    requires 0 <= i <= n <= t.len(), forall|j: int| i <= j < n ==> #[trigger] t[j] != '\\',
    ensures lit_parse_from(t, i) == lit_chars(t, i, n) + lit_parse_from(t, n),
    decreases n - i,
{
    if i == n {
        assert(lit_chars(t, i, n) + lit_parse_from(t, n) =~= lit_parse_from(t, n));
    } else {
        lemma_plain(t, i);
        lemma_plain_run(t, i + 1, n);
        assert(lit_chars(t, i, n) =~= seq![lit_clean(t[i])] + lit_chars(t, i + 1, n));
        lemma_seq_assoc(seq![lit_clean(t[i])], lit_chars(t, i + 1, n), lit_parse_from(t, n));
    }
}

// a broken escape candidate t[q..n) is copied verbatim
pub proof fn lemma_broken(t: Seq<char>, q: int, n: int)
    requires 0 <= q < n <= t.len(), no_esc_at(t, q), forall|j: int| q < j < n ==> #[trigger] t[j] != '\\',
    ensures lit_parse_from(t, q) == lit_chars(t, q, n) + lit_parse_from(t, n),
{
    lemma_single(t, q);
    lemma_plain_run(t, q + 1, n);
    assert(lit_chars(t, q, n) =~= seq![lit_clean(t[q])] + lit_chars(t, q + 1, n));
    lemma_seq_assoc(seq![lit_clean(t[q])], lit_chars(t, q + 1, n), lit_parse_from(t, n));
}

pub proof fn lemma_hex_value_bound(t: Seq<char>, i: int, k: int)
    requires 0 <= k, hex_run(t, i, k),
    ensures 0 <= hex_value(t, i, k), k <= 5 ==> hex_value(t, i, k) < 0x100000, k <= 4 ==> hex_value(t, i, k) < 0x10000,
        k <= 3 ==> hex_value(t, i, k) < 0x1000, k <= 2 ==> hex_value(t, i, k) < 0x100, k <= 1 ==> hex_value(t, i, k) < 0x10,
        k == 0 ==> hex_value(t, i, k) == 0,
    decreases k,
{
    if k > 0 {
        assert forall|j: int| i <= j < i + (k - 1) implies is_hex(#[trigger] t[j]) by {}
        lemma_hex_value_bound(t, i, k - 1);
        assert(is_hex(t[i + k - 1]));
    }
}

// the automaton's pending buffer holds the last p characters read, and its state says which
// proper prefix of an escape they spell
pub open spec fn pa_inv(pa: ParsingAutomaton, t: Seq<char>, n: int) -> bool {
    let p = pa.pending_idx as int;
    let q = n - p;
    &&& 0 <= p <= 8
    &&& 0 <= q
    &&& n <= t.len()
    &&& forall|j: int| 0 <= j < p ==> #[trigger] pa.pending@[j] == t[q + j] as u32
    &&& lit_parse_from(t, 0) == pa.string_so_far@ + lit_parse_from(t, q)
    &&& match pa.state {
        State::Init => p == 0 && pa.escape_code == 0,
        State::AfterSlash => p == 1 && pa.escape_code == 0 && t[q] == '\\',
        State::AfterSlashU => p == 2 && pa.escape_code == 0 && t[q] == '\\' && t[q + 1] == 'u',
        State::AfterSlashUHex => 3 <= p <= 5 && t[q] == '\\' && t[q + 1] == 'u' && hex_run(t, q + 2, p - 2)
            && pa.escape_code == hex_value(t, q + 2, p - 2),
        State::AfterSlashUBrace => 3 <= p <= 8 && t[q] == '\\' && t[q + 1] == 'u' && t[q + 2] == '{' && hex_run(t, q + 3, p - 3)
            && pa.escape_code == hex_value(t, q + 3, p - 3),
    }
}

pub proof fn lemma_inv_local(pa: ParsingAutomaton, t: Seq<char>, n: int)
    requires pa_inv(pa, t, n),
    ensures pa_local(pa),
{
    let p = pa.pending_idx as int;
    let q = n - p;
    if pa.state == State::AfterSlashUHex { lemma_hex_value_bound(t, q + 2, p - 2); }
    if pa.state == State::AfterSlashUBrace { lemma_hex_value_bound(t, q + 3, p - 3); }
}

// the pending characters (all ASCII) equal the text characters taken literally
pub proof fn lemma_pending_chars(pa: ParsingAutomaton, t: Seq<char>, n: int)
    requires pa_inv(pa, t, n),
    ensures pa.pending@.subrange(0, pa.pending_idx as int) == lit_chars(t, n - pa.pending_idx, n),
        forall|j: int| n - pa.pending_idx < j < n ==> #[trigger] t[j] != '\\',
{
    let p = pa.pending_idx as int;
    let q = n - p;
    assert forall|j: int| q < j < n implies #[trigger] t[j] != '\\' by {
        if pa.state == State::AfterSlashUHex { if j >= q + 2 { assert(is_hex(t[j])); } }
        if pa.state == State::AfterSlashUBrace { if j >= q + 3 { assert(is_hex(t[j])); } }
    }
    assert forall|j: int| 0 <= j < p implies #[trigger] pa.pending@.subrange(0, p)[j] == lit_chars(t, q, n)[j] by {
        assert(pa.pending@[j] == t[q + j] as u32);
        if pa.state == State::AfterSlashUHex { if j >= 2 { assert(is_hex(t[q + j])); } }
        if pa.state == State::AfterSlashUBrace { if j >= 3 { assert(is_hex(t[q + j])); } }
    }
    assert(pa.pending@.subrange(0, p) =~= lit_chars(t, q, n));
}

// the candidate in the pending buffer cannot be completed: the next character b (or the end of
// the text) breaks it
pub open spec fn breaks(pa: ParsingAutomaton, t: Seq<char>, n: int) -> bool {
    let p = pa.pending_idx as int;
    n == t.len() || match pa.state {
        State::Init => true,
        State::AfterSlash => t[n] != 'u',
        State::AfterSlashU => t[n] != '{' && !is_hex(t[n]),
        State::AfterSlashUHex => !is_hex(t[n]),
        State::AfterSlashUBrace => !(t[n] == '}' && p > 3 && pa.escape_code <= MAX_CHAR) && !(is_hex(t[n]) && p < 8),
    }
}

pub proof fn lemma_candidate_broken(pa: ParsingAutomaton, t: Seq<char>, n: int)
    requires pa_inv(pa, t, n), breaks(pa, t, n), pa.pending_idx > 0,
    ensures no_esc_at(t, n - pa.pending_idx),
        lit_parse_from(t, n - pa.pending_idx) == lit_chars(t, n - pa.pending_idx, n) + lit_parse_from(t, n),
{
    let p = pa.pending_idx as int;
    let q = n - p;
    lemma_pending_chars(pa, t, n);
    match pa.state {
        State::Init => {},
        State::AfterSlash => {},
        State::AfterSlashU => {
            if n < t.len() { assert(!hex_run(t, q + 2, 4)) by { if hex_run(t, q + 2, 4) { assert(is_hex(t[q + 2])); } } }
        },
        State::AfterSlashUHex => {
            assert(is_hex(t[q + 2]));
            if n < t.len() && q + 6 <= t.len() { assert(!hex_run(t, q + 2, 4)) by { if hex_run(t, q + 2, 4) { assert(is_hex(t[n])); } } }
        },
        State::AfterSlashUBrace => {
            let m = p - 3;
            assert(!esc4_at(t, q)) by { if hex_run(t, q + 2, 4) { assert(is_hex(t[q + 2])); } }
            assert forall|k: int| 1 <= k <= 5 implies !escb_at(t, q, k) by {
                if escb_at(t, q, k) {
                    if k < m {
                        assert(is_hex(t[q + 3 + k]));
                    } else if k == m {
                        // t[n] == '}' and the value is in range: then p > 3 and code <= MAX, not a break
                    } else {
                        // k > m: t[n] = t[q+3+m] must be hex, and m < 5
                        assert(is_hex(t[q + 3 + m]));
                    }
                }
            }
        },
    }
    lemma_broken(t, q, n);
}

// extending a run of hex digits by t[n]
pub proof fn lemma_hex_extend(t: Seq<char>, i: int, k: int)
    requires 0 <= k, hex_run(t, i, k), is_hex(t[i + k]),
    ensures hex_run(t, i, k + 1), hex_value(t, i, k + 1) == 16 * hex_value(t, i, k) + hexval(t[i + k]),
{
    assert forall|j: int| i <= j < i + (k + 1) implies is_hex(#[trigger] t[j]) by {
        if j < i + k { } else { assert(j == i + k); }
    }
}

// facts about the candidate extended by t[n] (when it is extended or completed)
pub proof fn lemma_complete(pa: ParsingAutomaton, t: Seq<char>, n: int)
    requires pa_inv(pa, t, n), n < t.len(),
    ensures ({
        let p = pa.pending_idx as int;
        let q = n - p;
        &&& (pa.state == State::AfterSlashUHex && is_hex(t[n]) ==> hex_run(t, q + 2, p - 1)
                && hex_value(t, q + 2, p - 1) == 16 * pa.escape_code + hexval(t[n]) && hex_value(t, q + 2, p - 1) < 0x10000
                && (p == 5 ==> lit_parse_from(t, q) == seq![hex_value(t, q + 2, 4) as u32] + lit_parse_from(t, n + 1)))
        &&& (pa.state == State::AfterSlashU && is_hex(t[n]) ==> hex_run(t, q + 2, 1) && hex_value(t, q + 2, 1) == hexval(t[n]))
        &&& (pa.state == State::AfterSlashU && t[n] == '{' ==> hex_run(t, q + 3, 0) && hex_value(t, q + 3, 0) == 0)
        &&& (pa.state == State::AfterSlashUBrace && is_hex(t[n]) && p < 8 ==> hex_run(t, q + 3, p - 2)
                && hex_value(t, q + 3, p - 2) == 16 * pa.escape_code + hexval(t[n]) && hex_value(t, q + 3, p - 2) < 0x100000)
        &&& (pa.state == State::AfterSlashUBrace && t[n] == '}' && p > 3 && pa.escape_code <= MAX_CHAR ==>
                lit_parse_from(t, q) == seq![pa.escape_code] + lit_parse_from(t, n + 1))
    }),
{
    let p = pa.pending_idx as int;
    let q = n - p;
    if pa.state == State::AfterSlashUHex && is_hex(t[n]) {
        lemma_hex_extend(t, q + 2, p - 2);
        lemma_hex_value_bound(t, q + 2, p - 1);
        if p == 5 { assert(esc4_at(t, q)); }
    }
    if pa.state == State::AfterSlashU && is_hex(t[n]) {
        assert(hex_run(t, q + 2, 0));
        lemma_hex_extend(t, q + 2, 0);
    }
    if pa.state == State::AfterSlashUBrace && is_hex(t[n]) && p < 8 {
        lemma_hex_extend(t, q + 3, p - 3);
        lemma_hex_value_bound(t, q + 3, p - 2);
    }
    if pa.state == State::AfterSlashUBrace && t[n] == '}' && p > 3 && pa.escape_code <= MAX_CHAR {
        let k = p - 3;
        assert(!esc4_at(t, q)) by { if hex_run(t, q + 2, 4) { assert(is_hex(t[q + 2])); } }
        assert(escb_at(t, q, k));
        assert forall|k2: int| 1 <= k2 < k implies !escb_at(t, q, k2) by {
            if escb_at(t, q, k2) { assert(is_hex(t[q + 3 + k2])); }
        }
    }
}

pub proof fn lemma_push_is_add(a: Seq<u32>, c: u32)
    ensures a.push(c) == a + seq![c],
{
    assert(a.push(c) =~= a + seq![c]);
}

// every code point a literal denotes is an SMT-LIB character
pub proof fn lemma_lit_parse_good(t: Seq<char>, i: int)
    ensures ss_good(lit_parse_from(t, i)),
    decreases t.len() - i,
{
    if i < 0 || i >= t.len() {
    } else {
        let r = lit_parse_from(t, i);
        if esc4_at(t, i) {
            lemma_hex_value_bound(t, i + 2, 4);
            lemma_lit_parse_good(t, i + 6);
            lemma_good_concat(seq![hex_value(t, i + 2, 4) as u32], lit_parse_from(t, i + 6));
        } else if escb_at(t, i, 1) {
            lemma_hex_value_bound(t, i + 3, 1);
            lemma_lit_parse_good(t, i + 5);
            lemma_good_concat(seq![hex_value(t, i + 3, 1) as u32], lit_parse_from(t, i + 5));
        } else if escb_at(t, i, 2) {
            lemma_hex_value_bound(t, i + 3, 2);
            lemma_lit_parse_good(t, i + 6);
            lemma_good_concat(seq![hex_value(t, i + 3, 2) as u32], lit_parse_from(t, i + 6));
        } else if escb_at(t, i, 3) {
            lemma_hex_value_bound(t, i + 3, 3);
            lemma_lit_parse_good(t, i + 7);
            lemma_good_concat(seq![hex_value(t, i + 3, 3) as u32], lit_parse_from(t, i + 7));
        } else if escb_at(t, i, 4) {
            lemma_hex_value_bound(t, i + 3, 4);
            lemma_lit_parse_good(t, i + 8);
            lemma_good_concat(seq![hex_value(t, i + 3, 4) as u32], lit_parse_from(t, i + 8));
        } else if escb_at(t, i, 5) {
            lemma_hex_value_bound(t, i + 3, 5);
            lemma_lit_parse_good(t, i + 9);
            lemma_good_concat(seq![hex_value(t, i + 3, 5) as u32], lit_parse_from(t, i + 9));
        } else {
            lemma_lit_parse_good(t, i + 1);
            lemma_good_concat(seq![lit_clean(t[i])], lit_parse_from(t, i + 1));
        }
    }
}
