// SplitterList::add: the new pair is appended, and moved in front of the inactive pairs when it is active
pub proof fn lemma_sl_add(l0: SplitterList, l1: SplitterList, s: SplitterItem)
    requires sl_wf(l0),
        ({
            let pushed = l0.list@.push(CharClassPair { char: s.char, class: s.class });
            let i = l0.list@.len() as int;
            let na = l0.num_active as int;
            if s.active {
                l1.num_active == na + 1 && l1.list@ == (if na < i { pushed.update(na, pushed[i]).update(i, pushed[na]) } else { pushed })
            } else {
                l1.num_active == na && l1.list@ == pushed
            }
        }),
    ensures sl_wf(l1),
        forall|c: u32, cls: u32, a: bool| sl_has(l1, c, cls, a) <==> (sl_has(l0, c, cls, a) || (c == s.char && cls == s.class && a == s.active)),
        sl_uniq(l0) && !sl_has_char(l0, s.char) ==> sl_uniq(l1),
{
    let i = l0.list@.len() as int;
    let na = l0.num_active as int;
    if sl_uniq(l0) && !sl_has_char(l0, s.char) {
        let back = |k: int| if s.active && na < i { if k == na { i } else if k == i { na } else { k } } else { k };
        let pushed = l0.list@.push(CharClassPair { char: s.char, class: s.class });
        assert forall|k: int| 0 <= k <= i implies #[trigger] l1.list@[k] == pushed[back(k)] by {}
        assert forall|k: int| 0 <= k < i implies (#[trigger] l0.list@[k]).char != s.char by {
            if l0.list@[k].char == s.char { assert(sl_at(l0, k, s.char, l0.list@[k].class, k < na)); assert(sl_has(l0, s.char, l0.list@[k].class, k < na)); }
        }
        assert forall|k1: int, k2: int| 0 <= k1 < l1.list@.len() && 0 <= k2 < l1.list@.len() && k1 != k2 implies (#[trigger] l1.list@[k1]).char != (#[trigger] l1.list@[k2]).char by {
            let b1 = back(k1); let b2 = back(k2);
            assert(l1.list@[k1] == pushed[b1] && l1.list@[k2] == pushed[b2]);
            assert(b1 != b2);
            if b1 < i && b2 < i { assert(l0.list@[b1].char != l0.list@[b2].char); }
        }
    }
    // position map from l0 to l1
    let fwd = |k: int| if s.active && k == na && na < i { i } else { k };
    let newpos = if s.active && na < i { na } else { i };
    assert forall|c: u32, cls: u32, a: bool| sl_has(l1, c, cls, a) <==> (sl_has(l0, c, cls, a) || (c == s.char && cls == s.class && a == s.active)) by {
        if sl_has(l0, c, cls, a) {
            let k = choose|k: int| #[trigger] sl_at(l0, k, c, cls, a);
            assert(sl_at(l1, fwd(k), c, cls, a));
        }
        if c == s.char && cls == s.class && a == s.active {
            assert(sl_at(l1, newpos, c, cls, a));
        }
        if sl_has(l1, c, cls, a) {
            let k = choose|k: int| #[trigger] sl_at(l1, k, c, cls, a);
            if k == newpos { } else {
                let k0 = if s.active && k == i && na < i { na } else { k };
                assert(sl_at(l0, k0, c, cls, a));
            }
        }
    }
}

// SplitterList::pick_active: the last active pair becomes inactive, nothing else changes
pub proof fn lemma_sl_pick(l0: SplitterList, l1: SplitterList)
    requires sl_wf(l0), sl_uniq(l0), l0.num_active > 0, l1.list@ == l0.list@, l1.num_active == l0.num_active - 1,
    ensures sl_wf(l1), sl_uniq(l1),
        sl_has(l0, l0.list@[l0.num_active - 1].char, l0.list@[l0.num_active - 1].class, true),
        forall|c: u32, cls: u32, a: bool| #![trigger sl_has(l1, c, cls, a)] sl_has(l1, c, cls, a) <==>
            (if c == l0.list@[l0.num_active - 1].char { cls == l0.list@[l0.num_active - 1].class && !a } else { sl_has(l0, c, cls, a) }),
{
    let p = l0.num_active - 1;
    let pc = l0.list@[p].char;
    let pcls = l0.list@[p].class;
    assert(sl_at(l0, p, pc, pcls, true));
    assert forall|c: u32, cls: u32, a: bool| #![trigger sl_has(l1, c, cls, a)] sl_has(l1, c, cls, a) <==>
            (if c == pc { cls == pcls && !a } else { sl_has(l0, c, cls, a) }) by {
        if sl_has(l1, c, cls, a) {
            let k = choose|k: int| #[trigger] sl_at(l1, k, c, cls, a);
            if c == pc { if k != p { assert(l0.list@[k].char != l0.list@[p].char); } }
            else { assert(sl_at(l0, k, c, cls, a)); }
        }
        if c == pc && cls == pcls && !a { assert(sl_at(l1, p, c, cls, a)); }
        if c != pc && sl_has(l0, c, cls, a) {
            let k = choose|k: int| #[trigger] sl_at(l0, k, c, cls, a);
            assert(sl_at(l1, k, c, cls, a));
        }
    }
}

// ---- recording a split (upate_splitters_after_refinement) ----

pub proof fn lemma_bid_before(p: Partition, i: u32, j: u32, v: u32, b: int)
    requires b != i, b != j,
    ensures (bid_before(p, i, j)(v) == b) == (pt_bid(p, v) == b),
{
}

// a block of a well-formed partition has a member
pub proof fn lemma_bp_nonempty(pc: BasePartition, cls: int) -> (x: u32)
    requires bp_wf(pc), 1 <= cls < pc.block@.len(),
    ensures bp_in(pc, cls, x),
{
    let h = pc.block@[cls];
    assert(h.start < h.end && h.end <= pc.size);
    assert(bh_in(h, h.start as int));
    pc.segment@[h.start as int]
}

pub proof fn lemma_up_init(a: MzAut, p: Partition, i: u32, j: u32, ls0: Seq<SplitterList>, preds0: Seq<BasePartition>, olds: SplitterList, ls: Seq<SplitterList>)
    requires 1 <= i < j, aut_ok(a),
        lists_ok(a, ls0, preds0, bid_before(p, i, j), j as int), ls0.len() <= j,
        olds_is(ls0, i, olds),
        ls.len() == ls0.len(),
        forall|b: int| 0 <= b < ls0.len() && b != i ==> ls[b] == ls0[b],
        i < ls0.len() ==> sl_empty(ls[i as int]),
    ensures up_lists(a, p, i, j, ls0, preds0, olds, 0, ls, preds0),
{
    let ob = bid_before(p, i, j);
    assert(ls_wf(ls)) by {
        assert forall|b: int| 0 <= b < ls.len() implies sl_wf(#[trigger] ls[b]) && sl_uniq(ls[b]) by {
            if b != i { assert(ls[b] == ls0[b]); assert(sl_wf(ls0[b])); }
        }
    }
    assert forall|b: int, c: u32, cls: u32, act: bool| b != i && b != j && #[trigger] ls_has(ls0, b, c, cls, act) implies
            1 <= cls < preds0[c as int].block@.len() && class_is(a, preds0[c as int], cls as int, bid_of(p), b, c) by {
        assert(c < a.m);
        assert(entries_ok(a, ls0, preds0[c as int], ob, j as int, c));
        assert(class_is(a, preds0[c as int], cls as int, ob, b, c));
        assert forall|x: u32| #[trigger] bp_in(preds0[c as int], cls as int, x) <==> (x < a.n && bid_of(p)((a.d)(x, c)) == b) by {
            lemma_bid_before(p, i, j, (a.d)(x, c), b);
        }
    }
    assert forall|b: int, c: u32, cls: u32, act: bool| (b == i || b == j) && #[trigger] ls_has(ls, b, c, cls, act) implies false by {
        let k = choose|k: int| #[trigger] sl_at(ls[b], k, c, cls, act);
    }
    assert forall|c: u32| c < a.m && #[trigger] done_char(olds, 0, c) implies char_moved(a, ls0, ls, p, i, j, c) by {}
}

// one iteration: letter c = olds[t].char; its predecessor class cls was refined into (class1, class2) and the new splitters were added
pub proof fn lemma_up_step(a: MzAut, p: Partition, i: u32, j: u32, ls0: Seq<SplitterList>, preds0: Seq<BasePartition>, olds: SplitterList, t: int,
    ls1: Seq<SplitterList>, preds1: Seq<BasePartition>, ls2: Seq<SplitterList>, preds2: Seq<BasePartition>,
    rel: spec_fn(u32, bool) -> bool, class1: u32, a1: bool, class2: u32, a2: bool)
    requires 1 <= i < j, aut_ok(a), pt_wf(p), p.base.size == a.n, j == p.base.block@.len() - 1,
        lists_ok(a, ls0, preds0, bid_before(p, i, j), j as int), ls0.len() <= j,
        up_lists(a, p, i, j, ls0, preds0, olds, t, ls1, preds1),
        t < olds.list@.len(),
        ({
            let c = olds.list@[t].char;
            let cls = olds.list@[t].class;
            let act = t < olds.num_active;
            &&& c < a.m
            &&& preds2 == preds1.update(c as int, preds2[c as int])
            &&& bp_wf(preds2[c as int]) && preds2[c as int].size == a.n
            &&& bp_refined_rel(preds2[c as int], preds1[c as int], cls as int, rel, (class1, class2))
            &&& forall|x: u32, r: bool| x < a.n && #[trigger] rel(x, r) ==> r == (pt_bid(p, (a.d)(x, c)) == i)
            &&& added2(ls1, ls2, i, j, c, class1, a1, class2, a2)
            &&& act ==> a1 && a2
            &&& a1 || a2
        }),
    ensures up_lists(a, p, i, j, ls0, preds0, olds, t + 1, ls2, preds2),
{
    let c = olds.list@[t].char;
    let cls = olds.list@[t].class;
    let act = t < olds.num_active;
    let ob = bid_before(p, i, j);
    let bd = bid_of(p);
    let pc1 = preds1[c as int];
    let pc2 = preds2[c as int];
    // olds is the old list of block i
    assert(i < ls0.len() && olds == ls0[i as int]);
    assert(sl_at(olds, t, c, cls, act));
    assert(ls_has(ls0, i as int, c, cls, act));
    assert(sl_uniq(olds));
    // c was not handled before
    assert(!done_char(olds, t, c)) by {
        if done_char(olds, t, c) {
            let k = choose|k: int| 0 <= k < t && k < olds.list@.len() && (#[trigger] olds.list@[k]).char == c;
            assert(olds.list@[k].char != olds.list@[t].char);
        }
    }
    assert(pc1 == preds0[c as int]);
    assert(entries_ok(a, ls0, preds0[c as int], ob, j as int, c));
    assert(1 <= cls < pc1.block@.len() && class_is(a, pc1, cls as int, ob, i as int, c));
    assert forall|c2: u32| done_char(olds, t + 1, c2) <==> (done_char(olds, t, c2) || c2 == c) by {
        if done_char(olds, t + 1, c2) {
            let k = choose|k: int| 0 <= k < t + 1 && k < olds.list@.len() && (#[trigger] olds.list@[k]).char == c2;
            if k < t { assert(done_char(olds, t, c2)); }
        }
        if done_char(olds, t, c2) {
            let k = choose|k: int| 0 <= k < t && k < olds.list@.len() && (#[trigger] olds.list@[k]).char == c2;
            assert(0 <= k < t + 1);
        }
        if c2 == c { assert(olds.list@[t].char == c2); }
    }
    // contents of the two new classes
    assert forall|x: u32| bp_in(pc1, cls as int, x) implies x < a.n && (pt_bid(p, (a.d)(x, c)) == i || pt_bid(p, (a.d)(x, c)) == j) by {}
    assert(class1 != 0 ==> 1 <= class1 < pc2.block@.len() && class_is(a, pc2, class1 as int, bd, i as int, c)) by {
        if class1 != 0 {
            assert forall|x: u32| #[trigger] bp_in(pc2, class1 as int, x) <==> (x < a.n && bd((a.d)(x, c)) == i) by {
                if bp_in(pc2, class1 as int, x) { assert(bp_in(pc1, cls as int, x)); assert(rel(x, true)); }
                if x < a.n && bd((a.d)(x, c)) == i {
                    assert(ob((a.d)(x, c)) == i);
                    assert(bp_in(pc1, cls as int, x));
                    if class2 != 0 { if bp_in(pc2, class2 as int, x) { assert(rel(x, false)); } }
                }
            }
        }
    }
    assert(class2 != 0 ==> 1 <= class2 < pc2.block@.len() && class_is(a, pc2, class2 as int, bd, j as int, c)) by {
        if class2 != 0 {
            assert forall|x: u32| #[trigger] bp_in(pc2, class2 as int, x) <==> (x < a.n && bd((a.d)(x, c)) == j) by {
                if bp_in(pc2, class2 as int, x) { assert(bp_in(pc1, cls as int, x)); assert(rel(x, false)); }
                if x < a.n && bd((a.d)(x, c)) == j {
                    assert(ob((a.d)(x, c)) == i);
                    assert(bp_in(pc1, cls as int, x));
                    if class1 != 0 { if bp_in(pc2, class1 as int, x) { assert(rel(x, true)); } }
                }
            }
        }
    }
    // ls_has is monotone from ls1 to ls2
    assert forall|b: int, c2: u32, cls2: u32, act2: bool| ls_has(ls1, b, c2, cls2, act2) implies ls_has(ls2, b, c2, cls2, act2) by {
        if b != i && b != j { assert(ls2[b] == ls1[b]); }
    }
    assert forall|b: int, c2: u32| ls_act(ls1, b, c2) implies ls_act(ls2, b, c2) by {
        let k = choose|k: u32| #[trigger] ls_has(ls1, b, c2, k, true);
        assert(ls_has(ls2, b, c2, k, true));
    }
    assert forall|b: int, c2: u32| ls_entry(ls1, b, c2) implies ls_entry(ls2, b, c2) by {
        let (k, ac) = choose|k: u32, ac: bool| #[trigger] ls_has(ls1, b, c2, k, ac);
        assert(ls_has(ls2, b, c2, k, ac));
    }
    // untouched lists
    assert forall|b: int| 0 <= b < ls2.len() && b != i && b != j implies (if b < ls0.len() { #[trigger] ls2[b] == ls0[b] } else { sl_empty(ls2[b]) }) by {
        if b < ls1.len() { assert(ls2[b] == ls1[b]); }
    }
    // other blocks' entries
    assert forall|b: int, c2: u32, cls2: u32, act2: bool| b != i && b != j && #[trigger] ls_has(ls0, b, c2, cls2, act2) implies
            1 <= cls2 < preds2[c2 as int].block@.len() && class_is(a, preds2[c2 as int], cls2 as int, bd, b, c2) by {
        assert(c2 < a.m);
        assert(1 <= cls2 < preds1[c2 as int].block@.len() && class_is(a, preds1[c2 as int], cls2 as int, bd, b, c2));
        if c2 == c {
            // cls2 is another class than cls: their members go to different blocks
            if cls2 == cls {
                let x = lemma_bp_nonempty(pc1, cls as int);
                assert(bd((a.d)(x, c)) == b);
            }
            assert forall|x: u32| #[trigger] bp_in(pc2, cls2 as int, x) <==> (x < a.n && bd((a.d)(x, c)) == b) by {
                assert(bp_in(pc2, cls2 as int, x) == bp_in(pc1, cls2 as int, x));
            }
        } else {
            assert(preds2[c2 as int] == preds1[c2 as int]);
        }
    }
    // entries of lists i and j
    assert forall|b: int, c2: u32, cls2: u32, act2: bool| (b == i || b == j) && #[trigger] ls_has(ls2, b, c2, cls2, act2) implies
            done_char(olds, t + 1, c2) && 1 <= cls2 < preds2[c2 as int].block@.len() && class_is(a, preds2[c2 as int], cls2 as int, bd, b, c2) by {
        if ls_has(ls1, b, c2, cls2, act2) {
            assert(done_char(olds, t, c2));
            assert(c2 != c);
            lemma_done_lt(a, ls0, preds0, p, i, j, olds, t, c2);
            assert(preds2[c2 as int] == preds1[c2 as int]);
        } else {
            assert(c2 == c);
        }
    }
    // letters not handled yet
    assert forall|c2: u32| c2 < a.m && !done_char(olds, t + 1, c2) implies #[trigger] preds2[c2 as int] == preds0[c2 as int] by {
        assert(c2 != c);
        assert(preds2[c2 as int] == preds1[c2 as int]);
    }
    // letters handled
    assert forall|c2: u32| c2 < a.m && #[trigger] done_char(olds, t + 1, c2) implies char_moved(a, ls0, ls2, p, i, j, c2) by {
        if c2 != c {
            assert(done_char(olds, t + 1, c2) <==> (done_char(olds, t, c2) || c2 == c));
            assert(done_char(olds, t, c2));
            assert(char_moved(a, ls0, ls1, p, i, j, c2));
            assert forall|x: u32| #![trigger ls_entry(ls2, pt_bid(p, (a.d)(x, c2)) as int, c2)] x < a.n && (pt_bid(p, (a.d)(x, c2)) == i || pt_bid(p, (a.d)(x, c2)) == j)
                implies ls_entry(ls2, pt_bid(p, (a.d)(x, c2)) as int, c2) by {
                assert(ls_entry(ls1, pt_bid(p, (a.d)(x, c2)) as int, c2));
            }
            if ls_act(ls0, i as int, c2) {
                assert forall|x: u32| #![trigger ls_act(ls2, pt_bid(p, (a.d)(x, c2)) as int, c2)] x < a.n && (pt_bid(p, (a.d)(x, c2)) == i || pt_bid(p, (a.d)(x, c2)) == j)
                    implies ls_act(ls2, pt_bid(p, (a.d)(x, c2)) as int, c2) by {
                    assert(ls_act(ls1, pt_bid(p, (a.d)(x, c2)) as int, c2));
                }
            }
            assert forall|x: u32, y: u32| #![trigger pt_bid(p, (a.d)(x, c2)), pt_bid(p, (a.d)(y, c2))] x < a.n && y < a.n
                && pt_bid(p, (a.d)(x, c2)) == i && pt_bid(p, (a.d)(y, c2)) == j implies ls_act(ls2, i as int, c2) || ls_act(ls2, j as int, c2) by {
                assert(ls_act(ls1, i as int, c2) || ls_act(ls1, j as int, c2));
            }
        } else {
            assert forall|x: u32| #![trigger ls_entry(ls2, pt_bid(p, (a.d)(x, c)) as int, c)] x < a.n && (pt_bid(p, (a.d)(x, c)) == i || pt_bid(p, (a.d)(x, c)) == j)
                implies ls_entry(ls2, pt_bid(p, (a.d)(x, c)) as int, c) by {
                assert(ob((a.d)(x, c)) == i); assert(bp_in(pc1, cls as int, x));
                if pt_bid(p, (a.d)(x, c)) == i {
                    if class1 == 0 { assert(rel(x, false)); }
                    assert(ls_has(ls2, i as int, c, class1, a1));
                } else {
                    if class2 == 0 { assert(rel(x, true)); }
                    assert(ls_has(ls2, j as int, c, class2, a2));
                }
            }
            if ls_act(ls0, i as int, c) {
                // the entry of (i, c) is unique, so it is the active one
                let k = choose|k: u32| #[trigger] ls_has(ls0, i as int, c, k, true);
                let pos = choose|pos: int| #[trigger] sl_at(olds, pos, c, k, true);
                if pos != t { assert(olds.list@[pos].char != olds.list@[t].char); }
                assert(act);
                assert(a1 && a2);
                assert forall|x: u32| #![trigger ls_act(ls2, pt_bid(p, (a.d)(x, c)) as int, c)] x < a.n && (pt_bid(p, (a.d)(x, c)) == i || pt_bid(p, (a.d)(x, c)) == j)
                    implies ls_act(ls2, pt_bid(p, (a.d)(x, c)) as int, c) by {
                    assert(ob((a.d)(x, c)) == i); assert(bp_in(pc1, cls as int, x));
                    if pt_bid(p, (a.d)(x, c)) == i {
                        if class1 == 0 { assert(rel(x, false)); }
                        assert(ls_has(ls2, i as int, c, class1, true));
                    } else {
                        if class2 == 0 { assert(rel(x, true)); }
                        assert(ls_has(ls2, j as int, c, class2, true));
                    }
                }
            }
            assert forall|x: u32, y: u32| #![trigger pt_bid(p, (a.d)(x, c)), pt_bid(p, (a.d)(y, c))] x < a.n && y < a.n
                && pt_bid(p, (a.d)(x, c)) == i && pt_bid(p, (a.d)(y, c)) == j implies ls_act(ls2, i as int, c) || ls_act(ls2, j as int, c) by {
                assert(ob((a.d)(x, c)) == i); assert(bp_in(pc1, cls as int, x));
                assert(ob((a.d)(y, c)) == i); assert(bp_in(pc1, cls as int, y));
                if class1 == 0 { assert(rel(x, false)); }
                if class2 == 0 { assert(rel(y, true)); }
                assert(ls_has(ls2, i as int, c, class1, a1));
                assert(ls_has(ls2, j as int, c, class2, a2));
            }
        }
    }
    assert forall|cc: int| 0 <= cc < a.m implies bp_wf(#[trigger] preds2[cc]) && preds2[cc].size == a.n by {
        if cc != c { assert(preds2[cc] == preds1[cc]); }
    }
}

// the letters of the old list of block i are letters of the alphabet
pub proof fn lemma_done_lt(a: MzAut, ls0: Seq<SplitterList>, preds0: Seq<BasePartition>, p: Partition, i: u32, j: u32, olds: SplitterList, t: int, c: u32)
    requires lists_ok(a, ls0, preds0, bid_before(p, i, j), j as int), olds_is(ls0, i, olds), done_char(olds, t, c),
    ensures c < a.m,
{
    let k = choose|k: int| 0 <= k < t && k < olds.list@.len() && (#[trigger] olds.list@[k]).char == c;
    assert(sl_at(olds, k, c, olds.list@[k].class, k < olds.num_active));
    assert(ls_has(ls0, i as int, c, olds.list@[k].class, k < olds.num_active));
}

// all entries of the old list of block i were handled: the lists describe the new partition
pub proof fn lemma_up_done(a: MzAut, p: Partition, i: u32, j: u32, ls0: Seq<SplitterList>, preds0: Seq<BasePartition>, olds: SplitterList,
    ls: Seq<SplitterList>, preds: Seq<BasePartition>)
    requires 1 <= i < j, aut_ok(a), pt_wf(p), p.base.size == a.n, j == p.base.block@.len() - 1,
        lists_ok(a, ls0, preds0, bid_before(p, i, j), j as int), ls0.len() <= j,
        up_lists(a, p, i, j, ls0, preds0, olds, olds.list@.len() as int, ls, preds),
    ensures lists_ok(a, ls, preds, bid_of(p), j + 1), act_moved(a, ls0, ls, p, i, j),
{
    let ob = bid_before(p, i, j);
    let bd = bid_of(p);
    let t = olds.list@.len() as int;
    // a letter with an entry in the old list of block i was handled
    assert forall|c: u32| ls_entry(ls0, i as int, c) implies done_char(olds, t, c) by {
        let (k, ac) = choose|k: u32, ac: bool| #[trigger] ls_has(ls0, i as int, c, k, ac);
        let pos = choose|pos: int| #[trigger] sl_at(olds, pos, c, k, ac);
        assert(olds.list@[pos].char == c);
    }
    assert forall|b: int, c: u32, cls: u32, act: bool| b != i && b != j && ls_has(ls, b, c, cls, act) implies ls_has(ls0, b, c, cls, act) by {
        if b < ls0.len() { assert(ls[b] == ls0[b]); } else { let k = choose|k: int| #[trigger] sl_at(ls[b], k, c, cls, act); }
    }
    assert forall|b: int, c: u32, cls: u32, act: bool| b != i && b != j && ls_has(ls0, b, c, cls, act) implies ls_has(ls, b, c, cls, act) by {
        assert(ls[b] == ls0[b]);
    }
    assert forall|b: int, c: u32, cls: u32, act: bool| #[trigger] ls_has(ls, b, c, cls, act) implies c < a.m by {
        if b == i || b == j { lemma_done_lt(a, ls0, preds0, p, i, j, olds, t, c); } else { assert(ls_has(ls0, b, c, cls, act)); }
    }
    assert forall|c: u32| c < a.m implies #[trigger] entries_ok(a, ls, preds[c as int], bd, j + 1, c) by {
        assert forall|b: int, cls: u32, act: bool| #[trigger] ls_has(ls, b, c, cls, act) implies
            1 <= b < j + 1 && 1 <= cls < preds[c as int].block@.len() && class_is(a, preds[c as int], cls as int, bd, b, c) by {
            if b != i && b != j {
                assert(ls_has(ls0, b, c, cls, act));
                assert(entries_ok(a, ls0, preds0[c as int], ob, j as int, c));
            }
        }
    }
    assert forall|c: u32| c < a.m implies #[trigger] complete_for(a, ls, bd, c) by {
        assert forall|x: u32| x < a.n implies #[trigger] ls_entry(ls, bd((a.d)(x, c)) as int, c) by {
            let b = bd((a.d)(x, c));
            assert(complete_for(a, ls0, ob, c));
            assert(ls_entry(ls0, ob((a.d)(x, c)) as int, c));
            if b == i || b == j {
                assert(ob((a.d)(x, c)) == i);
                assert(done_char(olds, t, c));
                assert(char_moved(a, ls0, ls, p, i, j, c));
            } else {
                assert(ob((a.d)(x, c)) == b);
                let (k, ac) = choose|k: u32, ac: bool| #[trigger] ls_has(ls0, b as int, c, k, ac);
                assert(ls_has(ls, b as int, c, k, ac));
            }
        }
    }
    // activity
    assert forall|b: int, c: u32| b != i && b != j implies #[trigger] ls_act(ls, b, c) == ls_act(ls0, b, c) by {
        if ls_act(ls, b, c) { let k = choose|k: u32| #[trigger] ls_has(ls, b, c, k, true); assert(ls_has(ls0, b, c, k, true)); }
        if ls_act(ls0, b, c) { let k = choose|k: u32| #[trigger] ls_has(ls0, b, c, k, true); assert(ls_has(ls, b, c, k, true)); }
    }
    assert forall|x: u32, c: u32| #![trigger ls_act(ls, pt_bid(p, (a.d)(x, c)) as int, c)] x < a.n && c < a.m && ls_act(ls0, i as int, c)
            && (pt_bid(p, (a.d)(x, c)) == i || pt_bid(p, (a.d)(x, c)) == j) implies ls_act(ls, pt_bid(p, (a.d)(x, c)) as int, c) by {
        let k = choose|k: u32| #[trigger] ls_has(ls0, i as int, c, k, true);
        assert(ls_entry(ls0, i as int, c));
        assert(done_char(olds, t, c));
        assert(char_moved(a, ls0, ls, p, i, j, c));
    }
    assert forall|x: u32, y: u32, c: u32| #![trigger pt_bid(p, (a.d)(x, c)), pt_bid(p, (a.d)(y, c))] x < a.n && y < a.n && c < a.m
            && pt_bid(p, (a.d)(x, c)) == i && pt_bid(p, (a.d)(y, c)) == j implies ls_act(ls, i as int, c) || ls_act(ls, j as int, c) by {
        assert(complete_for(a, ls0, ob, c));
        assert(ob((a.d)(x, c)) == i);
        assert(ls_entry(ls0, ob((a.d)(x, c)) as int, c));
        assert(done_char(olds, t, c));
        assert(char_moved(a, ls0, ls, p, i, j, c));
    }
}

// the letter of entry t does not occur among the first t entries
pub proof fn lemma_not_done(olds: SplitterList, t: int)
    requires sl_uniq(olds), 0 <= t < olds.list@.len(),
    ensures !done_char(olds, t, olds.list@[t].char),
{
    if done_char(olds, t, olds.list@[t].char) {
        let k = choose|k: int| 0 <= k < t && k < olds.list@.len() && (#[trigger] olds.list@[k]).char == olds.list@[t].char;
        assert(olds.list@[k].char != olds.list@[t].char);
    }
}

// the closures did not change: neither did the automaton they describe
pub proof fn lemma_same_spec_funs<D: Fn(u32, u32) -> u32, F: Fn(u32) -> bool>(m1: Minimizer<D, F>, m0: Minimizer<D, F>)
    requires same_spec(m1, m0), funs_ok(m0),
    ensures mz_aut(m1) == mz_aut(m0), funs_ok(m1),
{
    assert(mz_aut(m1).d == mz_aut(m0).d);
    assert(mz_aut(m1).fin == mz_aut(m0).fin);
}

// ---- residual languages ----
pub proof fn lemma_nerode_step(a: MzAut, x: u32, y: u32, c: u32)
    requires nerode(a, x, y), c < a.m,
    ensures nerode(a, (a.d)(x, c), (a.d)(y, c)),
{
    assert forall|w: Seq<u32>| mz_word(a, w) implies #[trigger] mz_acc(a, (a.d)(x, c), w) == mz_acc(a, (a.d)(y, c), w) by {
        let cw = seq![c] + w;
        assert(cw.drop_first() =~= w);
        assert(cw[0] == c);
        assert(mz_word(a, cw));
        assert(mz_acc(a, x, cw) == mz_acc(a, y, cw));
        assert(mz_run(a, x, cw) == mz_run(a, (a.d)(x, c), w));
        assert(mz_run(a, y, cw) == mz_run(a, (a.d)(y, c), w));
    }
}

pub proof fn lemma_nerode_fin(a: MzAut, x: u32, y: u32)
    requires nerode(a, x, y),
    ensures (a.fin)(x) == (a.fin)(y),
{
    let w = Seq::<u32>::empty();
    assert(mz_word(a, w));
    assert(mz_acc(a, x, w) == mz_acc(a, y, w));
}

// states of one block of a congruence that respects finality accept the same words
pub proof fn lemma_cong_acc(a: MzAut, p: Partition, x: u32, y: u32, w: Seq<u32>)
    requires aut_ok(a), refines_fin(a, p), congruence(a, p), x < a.n, y < a.n, same_blk(p, x, y), mz_word(a, w),
    ensures mz_acc(a, x, w) == mz_acc(a, y, w), mz_run(a, x, w) < a.n, same_blk(p, mz_run(a, x, w), mz_run(a, y, w)),
    decreases w.len(),
{
    if w.len() > 0 {
        let c = w[0];
        assert(step_same(a, p, x, y, c));
        assert(mz_word(a, w.drop_first())) by { assert forall|i: int| 0 <= i < w.drop_first().len() implies #[trigger] w.drop_first()[i] < a.m by { assert(w.drop_first()[i] == w[i + 1]); } }
        lemma_cong_acc(a, p, (a.d)(x, c), (a.d)(y, c), w.drop_first());
    }
}

pub proof fn lemma_cong_nerode(a: MzAut, p: Partition, x: u32, y: u32)
    requires aut_ok(a), refines_fin(a, p), congruence(a, p), x < a.n, y < a.n, same_blk(p, x, y),
    ensures nerode(a, x, y),
{
    assert forall|w: Seq<u32>| mz_word(a, w) implies #[trigger] mz_acc(a, x, w) == mz_acc(a, y, w) by { lemma_cong_acc(a, p, x, y, w); }
}

// ---- one block split keeps Hopcroft's invariant (activity was handed on by act_moved) ----
pub proof fn lemma_hop_split(a: MzAut, ls0: Seq<SplitterList>, ls1: Seq<SplitterList>, p0: Partition, p1: Partition, i: u32, j: u32, exc: spec_fn(u32, u32, u32) -> bool)
    requires aut_ok(a), pt_wf(p0), pt_wf(p1), p0.base.size == a.n, p1.base.size == a.n,
        j == p0.base.block@.len(), 1 <= i < j,
        hop_inv(a, ls0, p0, exc),
        act_moved(a, ls0, ls1, p1, i, j),
        forall|x: u32| x < a.n && pt_bid(p0, x) != i ==> #[trigger] pt_bid(p1, x) == pt_bid(p0, x),
        forall|x: u32| x < a.n && pt_bid(p0, x) == i ==> #[trigger] pt_bid(p1, x) == i || pt_bid(p1, x) == j,
    ensures hop_inv(a, ls1, p1, exc),
{
    assert forall|x: u32, y: u32, c: u32| x < a.n && y < a.n && c < a.m && same_blk(p1, x, y) implies #[trigger] hop_pair(a, ls1, p1, exc, x, y, c) by {
        let dx = (a.d)(x, c);
        let dy = (a.d)(y, c);
        assert(dx < a.n && dy < a.n);
        // same block before
        assert(same_blk(p0, x, y)) by {
            let bx = pt_bid(p0, x); let by_ = pt_bid(p0, y);
            assert(1 <= bx < j && 1 <= by_ < j);
            if bx != i { assert(pt_bid(p1, x) == bx); }
            if by_ != i { assert(pt_bid(p1, y) == by_); }
        }
        assert(hop_pair(a, ls0, p0, exc, x, y, c));
        let b0x = pt_bid(p0, dx); let b0y = pt_bid(p0, dy);
        let b1x = pt_bid(p1, dx); let b1y = pt_bid(p1, dy);
        assert(1 <= b0x < j && 1 <= b0y < j);
        if exc(x, y, c) {
        } else if b0x == b0y {
            if b1x != b1y {
                assert(b0x == i);
                if b1x == i { assert(ls_act(ls1, i as int, c) || ls_act(ls1, j as int, c)); }
                else { assert(b1y == i && b1x == j); assert(ls_act(ls1, i as int, c) || ls_act(ls1, j as int, c)); }
            }
        } else if ls_act(ls0, b0x as int, c) {
            if b0x == i { assert(ls_act(ls1, pt_bid(p1, (a.d)(x, c)) as int, c)); } else { assert(b1x == b0x); assert(ls_act(ls1, b0x as int, c) == ls_act(ls0, b0x as int, c)); }
        } else {
            assert(ls_act(ls0, b0y as int, c));
            if b0y == i { assert(ls_act(ls1, pt_bid(p1, (a.d)(y, c)) as int, c)); } else { assert(b1y == b0y); assert(ls_act(ls1, b0y as int, c) == ls_act(ls0, b0y as int, c)); }
        }
    }
}

// lists_ok only looks at the block ids of states
pub proof fn lemma_lists_ok_ext(a: MzAut, ls: Seq<SplitterList>, preds: Seq<BasePartition>, bv1: spec_fn(u32) -> u32, bv2: spec_fn(u32) -> u32, nb: int)
    requires aut_ok(a), lists_ok(a, ls, preds, bv1, nb), forall|v: u32| v < a.n ==> #[trigger] app1(bv1, v) == app1(bv2, v),
    ensures lists_ok(a, ls, preds, bv2, nb),
{
    assert forall|c: u32| c < a.m implies #[trigger] entries_ok(a, ls, preds[c as int], bv2, nb, c) by {
        assert(entries_ok(a, ls, preds[c as int], bv1, nb, c));
        assert forall|b: int, cls: u32, act: bool| #[trigger] ls_has(ls, b, c, cls, act) implies
            1 <= b < nb && 1 <= cls < preds[c as int].block@.len() && class_is(a, preds[c as int], cls as int, bv2, b, c) by {
            assert(class_is(a, preds[c as int], cls as int, bv1, b, c));
            assert forall|x: u32| #[trigger] bp_in(preds[c as int], cls as int, x) <==> (x < a.n && bv2((a.d)(x, c)) == b) by {
                if x < a.n { assert((a.d)(x, c) < a.n); assert(app1(bv1, (a.d)(x, c)) == app1(bv2, (a.d)(x, c))); }
            }
        }
    }
    assert forall|c: u32| c < a.m implies #[trigger] complete_for(a, ls, bv2, c) by {
        assert(complete_for(a, ls, bv1, c));
        assert forall|x: u32| x < a.n implies #[trigger] ls_entry(ls, bv2((a.d)(x, c)) as int, c) by {
            assert((a.d)(x, c) < a.n);
            assert(app1(bv1, (a.d)(x, c)) == app1(bv2, (a.d)(x, c)));
            assert(ls_entry(ls, bv1((a.d)(x, c)) as int, c));
        }
    }
}

// splitting block b by "the c0-successor lies in block blk" never separates equivalent states
pub proof fn lemma_keeps_nerode_split(a: MzAut, p0: Partition, p1: Partition, b: u32, blk: u32, c0: u32, j: u32)
    requires aut_ok(a), keeps_nerode(a, p0), c0 < a.m, p0.base.size == a.n,
        forall|x: u32| x < a.n && pt_bid(p0, x) != b ==> #[trigger] pt_bid(p1, x) == pt_bid(p0, x),
        forall|x: u32| x < a.n && pt_bid(p0, x) == b ==> (#[trigger] pt_bid(p1, x) == b && pt_bid(p0, (a.d)(x, c0)) == blk) || (pt_bid(p1, x) == j && pt_bid(p0, (a.d)(x, c0)) != blk),
    ensures keeps_nerode(a, p1),
{
    assert forall|x: u32, y: u32| x < a.n && y < a.n && #[trigger] nerode(a, x, y) implies same_blk(p1, x, y) by {
        assert(same_blk(p0, x, y));
        if pt_bid(p0, x) == b {
            lemma_nerode_step(a, x, y, c0);
            assert((a.d)(x, c0) < a.n && (a.d)(y, c0) < a.n);
            assert(same_blk(p0, (a.d)(x, c0), (a.d)(y, c0)));
        }
    }
}

// a weaker exception keeps the invariant
pub proof fn lemma_hop_weaken(a: MzAut, ls: Seq<SplitterList>, p: Partition, exc1: spec_fn(u32, u32, u32) -> bool, exc2: spec_fn(u32, u32, u32) -> bool)
    requires hop_inv(a, ls, p, exc1),
        forall|x: u32, y: u32, c: u32| x < a.n && y < a.n && c < a.m && same_blk(p, x, y) && #[trigger] exc1(x, y, c) ==> exc2(x, y, c),
    ensures hop_inv(a, ls, p, exc2),
{
    assert forall|x: u32, y: u32, c: u32| x < a.n && y < a.n && c < a.m && same_blk(p, x, y) implies #[trigger] hop_pair(a, ls, p, exc2, x, y, c) by {
        assert(hop_pair(a, ls, p, exc1, x, y, c));
    }
}

// the exception of splitter (blk, c0) is the same for two partitions that agree on block blk
pub proof fn lemma_exc_same(a: MzAut, ls: Seq<SplitterList>, p: Partition, p1: Partition, p2: Partition, blk: u32, c0: u32)
    requires aut_ok(a), hop_inv(a, ls, p, exc_of(a, p1, blk, c0)), blk_intact(a, p1, p2, blk), c0 < a.m,
    ensures hop_inv(a, ls, p, exc_of(a, p2, blk, c0)),
{
    let e1 = exc_of(a, p1, blk, c0);
    let e2 = exc_of(a, p2, blk, c0);
    assert forall|x: u32, y: u32, c: u32| x < a.n && y < a.n && c < a.m && same_blk(p, x, y) && #[trigger] e1(x, y, c) implies e2(x, y, c) by {
        assert((a.d)(x, c) < a.n && (a.d)(y, c) < a.n);
    }
    lemma_hop_weaken(a, ls, p, e1, e2);
}

// one candidate handled: the loop state of refine_with_splitter advances
pub proof fn lemma_rws_step(a: MzAut, p1: Partition, p2: Partition, p0: Partition, blk: u32, c0: u32, elems: Seq<u32>, sz: int, idx: int)
    requires aut_ok(a), pt_wf(p0), pt_wf(p1), p0.base.size == a.n, p1.base.size == a.n, c0 < a.m, 1 <= blk < p0.base.block@.len(),
        rws_inv(a, p1, p0, blk, c0, elems, sz, idx), cands_ok(a, p0, blk, c0, elems, sz), idx < sz,
        split_one(a, p2, p1, elems[idx], blk, c0),
    ensures rws_inv(a, p2, p0, blk, c0, elems, sz, idx + 1),
{
    let b = elems[idx];
    let nb1 = p1.base.block@.len();
    assert(refinable(a, p0, b, blk, c0));
    assert(p0.base.block@.len() <= nb1);
    assert forall|x: u32, y: u32| x < p0.base.size && y < p0.base.size && #[trigger] same_blk(p2, x, y) implies same_blk(p0, x, y) by {
        assert(same_blk(p1, x, y));
    }
    assert(blk_intact(a, p2, p0, blk)) by {
        assert forall|v: u32| v < a.n implies (#[trigger] pt_bid(p2, v) == blk) == (pt_bid(p0, v) == blk) by {
            assert((pt_bid(p1, v) == blk) == (pt_bid(p0, v) == blk));
            if pt_bid(p1, v) != b { assert(pt_bid(p2, v) == pt_bid(p1, v)); } else { assert(pt_bid(p2, v) == b || pt_bid(p2, v) == nb1); }
        }
    }
    assert forall|k: int| idx + 1 <= k < sz implies blk_intact(a, p2, p0, #[trigger] elems[k]) by {
        let e = elems[k];
        assert(blk_intact(a, p1, p0, e));
        assert(refinable(a, p0, e, blk, c0));
        assert(e != b);
        assert forall|v: u32| v < a.n implies (#[trigger] pt_bid(p2, v) == e) == (pt_bid(p0, v) == e) by {
            assert((pt_bid(p1, v) == e) == (pt_bid(p0, v) == e));
            if pt_bid(p1, v) != b { assert(pt_bid(p2, v) == pt_bid(p1, v)); } else { assert(pt_bid(p2, v) == b || pt_bid(p2, v) == nb1); }
        }
    }
    assert forall|x: u32, y: u32, k: int| #![trigger same_blk(p2, x, y), elems[k]] x < a.n && y < a.n && same_blk(p2, x, y) && 0 <= k < idx + 1 && pt_bid(p0, x) == elems[k]
        implies uni(a, p0, blk, c0, x, y) by {
        assert(same_blk(p1, x, y));
        if k < idx {
        } else {
            assert(blk_intact(a, p1, p0, elems[idx]));
            assert(pt_bid(p1, x) == b);
            assert(uni(a, p1, blk, c0, x, y));
            assert((a.d)(x, c0) < a.n && (a.d)(y, c0) < a.n);
        }
    }
}

// every pair of one block agrees on the splitter: the exception is void
pub proof fn lemma_rws_done(a: MzAut, ls: Seq<SplitterList>, p: Partition, p0: Partition, blk: u32, c0: u32, elems: Seq<u32>, sz: int, self_done: bool)
    requires aut_ok(a), pt_wf(p0), pt_wf(p), p0.base.size == a.n, p.base.size == a.n, c0 < a.m, 1 <= blk < p0.base.block@.len(),
        pt_finer(p, p0),
        cands_ok(a, p0, blk, c0, elems, sz),
        forall|x: u32, y: u32, k: int| #![trigger same_blk(p, x, y), elems[k]] x < a.n && y < a.n && same_blk(p, x, y) && 0 <= k < sz && pt_bid(p0, x) == elems[k] ==> uni(a, p0, blk, c0, x, y),
        self_done ==> (forall|x: u32, y: u32| x < a.n && y < a.n && pt_bid(p0, x) == blk && #[trigger] same_blk(p, x, y) ==> uni(a, p0, blk, c0, x, y)),
        !self_done ==> !refinable(a, p0, blk, blk, c0),
        hop_inv(a, ls, p, exc_of(a, p0, blk, c0)),
    ensures hop_inv(a, ls, p, no_exc()),
{
    let e1 = exc_of(a, p0, blk, c0);
    assert forall|x: u32, y: u32, c: u32| x < a.n && y < a.n && c < a.m && same_blk(p, x, y) && #[trigger] e1(x, y, c) implies no_exc()(x, y, c) by {
        assert(same_blk(p0, x, y));
        let d0 = pt_bid(p0, x);
        assert(1 <= d0 < p0.base.block@.len());
        if d0 == blk && self_done {
            assert(uni(a, p0, blk, c0, x, y));
        } else if refinable(a, p0, d0, blk, c0) {
            let k = choose|k: int| 0 <= k < sz && #[trigger] elems[k] == d0;
            assert(uni(a, p0, blk, c0, x, y));
        } else {
            if x != y { lemma_pt_two(p0, x, y); }
            if blk_size(p0, d0 as int) > 1 {
                assert(!is_cand(a, p0, d0, blk, c0));
                assert(!cand_at(a, p0, d0, blk, c0, x));
                assert(!cand_at(a, p0, d0, blk, c0, y));
            }
        }
    }
    lemma_hop_weaken(a, ls, p, e1, no_exc());
}

// a splitter was picked (deactivated): the invariant holds with that splitter as the exception
pub proof fn lemma_pick(a: MzAut, ls0: Seq<SplitterList>, ls1: Seq<SplitterList>, preds: Seq<BasePartition>, p: Partition, s: Splitter)
    requires aut_ok(a), pt_wf(p), p.base.size == a.n,
        lists_ok(a, ls0, preds, bid_of(p), p.base.block@.len() as int), hop_inv(a, ls0, p, no_exc()),
        ls_wf(ls1), ls1.len() == ls0.len(),
        ls_has(ls0, s.block as int, s.char, s.class, true),
        forall|b: int, c: u32, cls: u32, act: bool| #![trigger ls_has(ls1, b, c, cls, act)]
            ls_has(ls1, b, c, cls, act) <==> (if b == s.block && c == s.char { cls == s.class && !act } else { ls_has(ls0, b, c, cls, act) }),
    ensures lists_ok(a, ls1, preds, bid_of(p), p.base.block@.len() as int),
        hop_inv(a, ls1, p, exc_of(a, p, s.block, s.char)),
        ls_has(ls1, s.block as int, s.char, s.class, false),
        s.char < a.m,
{
    let bd = bid_of(p);
    let nb = p.base.block@.len() as int;
    assert(s.char < a.m);
    assert forall|b: int, c: u32, cls: u32, act: bool| #[trigger] ls_has(ls1, b, c, cls, act) implies ls_has(ls0, b, c, cls, act) || ls_has(ls0, b, c, cls, !act) by {}
    assert forall|c: u32| c < a.m implies #[trigger] entries_ok(a, ls1, preds[c as int], bd, nb, c) by {
        assert(entries_ok(a, ls0, preds[c as int], bd, nb, c));
        assert forall|b: int, cls: u32, act: bool| #[trigger] ls_has(ls1, b, c, cls, act) implies
            1 <= b < nb && 1 <= cls < preds[c as int].block@.len() && class_is(a, preds[c as int], cls as int, bd, b, c) by {
            assert(ls_has(ls0, b, c, cls, act) || ls_has(ls0, b, c, cls, !act));
        }
    }
    assert forall|c: u32| c < a.m implies #[trigger] complete_for(a, ls1, bd, c) by {
        assert(complete_for(a, ls0, bd, c));
        assert forall|x: u32| x < a.n implies #[trigger] ls_entry(ls1, bd((a.d)(x, c)) as int, c) by {
            let b = bd((a.d)(x, c)) as int;
            assert(ls_entry(ls0, b, c));
            let (k, ac) = choose|k: u32, ac: bool| #[trigger] ls_has(ls0, b, c, k, ac);
            if b == s.block && c == s.char { assert(ls_has(ls1, b, c, s.class, false)); } else { assert(ls_has(ls1, b, c, k, ac)); }
        }
    }
    assert forall|b: int, c: u32, cls: u32, act: bool| #[trigger] ls_has(ls1, b, c, cls, act) implies c < a.m by {
        assert(ls_has(ls0, b, c, cls, act) || ls_has(ls0, b, c, cls, !act));
    }
    let exc = exc_of(a, p, s.block, s.char);
    assert forall|x: u32, y: u32, c: u32| x < a.n && y < a.n && c < a.m && same_blk(p, x, y) implies #[trigger] hop_pair(a, ls1, p, exc, x, y, c) by {
        assert(hop_pair(a, ls0, p, no_exc(), x, y, c));
        let bx = pt_bid(p, (a.d)(x, c)); let by_ = pt_bid(p, (a.d)(y, c));
        if bx != by_ {
            if ls_act(ls0, bx as int, c) {
                if bx == s.block && c == s.char { assert(exc(x, y, c)); }
                else { let k = choose|k: u32| #[trigger] ls_has(ls0, bx as int, c, k, true); assert(ls_has(ls1, bx as int, c, k, true)); }
            } else {
                assert(ls_act(ls0, by_ as int, c));
                if by_ == s.block && c == s.char { assert(exc(x, y, c)); }
                else { let k = choose|k: u32| #[trigger] ls_has(ls0, by_ as int, c, k, true); assert(ls_has(ls1, by_ as int, c, k, true)); }
            }
        }
    }
}

// no active splitter left: the partition is a congruence
pub proof fn lemma_no_active(a: MzAut, ls: Seq<SplitterList>, p: Partition)
    requires hop_inv(a, ls, p, no_exc()), forall|b: int, c: u32| !ls_act(ls, b, c),
    ensures congruence(a, p),
{
    assert forall|x: u32, y: u32, c: u32| x < a.n && y < a.n && c < a.m && same_blk(p, x, y) implies #[trigger] step_same(a, p, x, y, c) by {
        assert(hop_pair(a, ls, p, no_exc(), x, y, c));
    }
}

// as many blocks as states: every block is a singleton
pub proof fn lemma_all_singletons(a: MzAut, p: Partition)
    requires aut_ok(a), pt_wf(p), p.base.size == a.n, p.base.block@.len() - 1 >= a.n,
    ensures forall|x: u32, y: u32| x < a.n && y < a.n && #[trigger] same_blk(p, x, y) ==> x == y,
{
    assert forall|x: u32, y: u32| x < a.n && y < a.n && #[trigger] same_blk(p, x, y) implies x == y by {
        if x != y {
            lemma_pt_two(p, x, y);
            // n + 1 distinct positions below n: the starts of the n blocks and one more position inside block of x
            let bx = pt_bid(p, x) as int;
            let nb = p.base.block@.len() as int;
            let q = Seq::new((nb - 1 + 1) as nat, |k: int| if k < nb - 1 { p.base.block@[k + 1].start as int } else { p.base.block@[bx].start as int + 1 });
            assert forall|k: int| 0 <= k < q.len() implies 0 <= #[trigger] q[k] < a.n by {
                if k < nb - 1 { let h = p.base.block@[k + 1]; assert(h.start < h.end && h.end <= p.base.size); }
                else { let h = p.base.block@[bx]; assert(h.end <= p.base.size); }
            }
            assert forall|k1: int, k2: int| 0 <= k1 < q.len() && 0 <= k2 < q.len() && k1 != k2 implies q[k1] != q[k2] by {
                let h = p.base.block@[bx];
                if k1 < nb - 1 && k2 < nb - 1 { assert(bh_disjoint(p.base.block@[k1 + 1], p.base.block@[k2 + 1])); }
                else if k1 < nb - 1 { if k1 + 1 != bx { assert(bh_disjoint(p.base.block@[k1 + 1], p.base.block@[bx])); } }
                else if k2 < nb - 1 { if k2 + 1 != bx { assert(bh_disjoint(p.base.block@[k2 + 1], p.base.block@[bx])); } }
            }
            lemma_pigeonhole(q, a.n as int);
        }
    }
}

pub proof fn lemma_singletons_cong(a: MzAut, p: Partition)
    requires forall|x: u32, y: u32| x < a.n && y < a.n && #[trigger] same_blk(p, x, y) ==> x == y,
    ensures congruence(a, p),
{
    assert forall|x: u32, y: u32, c: u32| x < a.n && y < a.n && c < a.m && same_blk(p, x, y) implies #[trigger] step_same(a, p, x, y, c) by {}
}

// the state Minimizer::new builds before init_main_partition satisfies the invariant
pub proof fn lemma_new_inv(a: MzAut, ls: Seq<SplitterList>, preds: Seq<BasePartition>, p: Partition)
    requires aut_ok(a), pt_wf(p), p.base.size == a.n, p.base.block@.len() == 2,
        forall|x: u32| x < a.n ==> pt_bid(p, x) == 1,
        preds.len() == a.m,
        forall|c: int| 0 <= c < a.m ==> bp_wf(#[trigger] preds[c]) && preds[c].size == a.n && preds[c].block@.len() == 2
            && preds[c].block@[1].start == 0 && preds[c].block@[1].end == a.n && (forall|k: int| 0 <= k < a.n ==> preds[c].segment@[k] == k),
        ls.len() == 2, sl_empty(ls[0]), sl_wf(ls[1]), sl_uniq(ls[1]),
        forall|c: u32, cls: u32, act: bool| sl_has(ls[1], c, cls, act) <==> (c < a.m && cls == 1 && !act),
    ensures lists_ok(a, ls, preds, bid_of(p), 2), hop_inv(a, ls, p, no_exc()), keeps_nerode(a, p),
{
    let bd = bid_of(p);
    assert forall|b: int, c: u32, cls: u32, act: bool| #[trigger] ls_has(ls, b, c, cls, act) implies b == 1 && c < a.m && cls == 1 && !act by {
        if b == 0 { let k = choose|k: int| #[trigger] sl_at(ls[0], k, c, cls, act); }
    }
    assert forall|c: u32| c < a.m implies #[trigger] entries_ok(a, ls, preds[c as int], bd, 2, c) by {
        let pc = preds[c as int];
        assert forall|b: int, cls: u32, act: bool| #[trigger] ls_has(ls, b, c, cls, act) implies
            1 <= b < 2 && 1 <= cls < pc.block@.len() && class_is(a, pc, cls as int, bd, b, c) by {
            assert forall|x: u32| #[trigger] bp_in(pc, 1, x) <==> (x < a.n && bd((a.d)(x, c)) == 1) by {
                if bp_in(pc, 1, x) { let k = choose|k: int| bh_in(pc.block@[1], k) && #[trigger] pc.segment@[k] == x; }
                if x < a.n { assert(bh_in(pc.block@[1], x as int)); assert(pc.segment@[x as int] == x); assert((a.d)(x, c) < a.n); }
            }
        }
    }
    assert forall|c: u32| c < a.m implies #[trigger] complete_for(a, ls, bd, c) by {
        assert forall|x: u32| x < a.n implies #[trigger] ls_entry(ls, bd((a.d)(x, c)) as int, c) by {
            assert((a.d)(x, c) < a.n);
            assert(sl_has(ls[1], c, 1, false));
            assert(ls_has(ls, 1, c, 1, false));
        }
    }
    assert(ls_wf(ls)) by {
        assert forall|b: int| 0 <= b < ls.len() implies sl_wf(#[trigger] ls[b]) && sl_uniq(ls[b]) by {}
    }
    assert forall|x: u32, y: u32, c: u32| x < a.n && y < a.n && c < a.m && same_blk(p, x, y) implies #[trigger] hop_pair(a, ls, p, no_exc(), x, y, c) by {
        assert((a.d)(x, c) < a.n && (a.d)(y, c) < a.n);
    }
}

// a block split by finality keeps equivalent states together
pub proof fn lemma_keeps_nerode_fin(a: MzAut, p0: Partition, p1: Partition, j: u32)
    requires aut_ok(a), keeps_nerode(a, p0), p0.base.size == a.n, j != 1,
        forall|x: u32| x < a.n ==> (#[trigger] pt_bid(p1, x) == 1 && (a.fin)(x)) || (pt_bid(p1, x) == j && !(a.fin)(x)),
    ensures keeps_nerode(a, p1), refines_fin(a, p1),
{
    assert forall|x: u32, y: u32| x < a.n && y < a.n && #[trigger] nerode(a, x, y) implies same_blk(p1, x, y) by {
        lemma_nerode_fin(a, x, y);
        assert((pt_bid(p1, x) == 1 && (a.fin)(x)) || (pt_bid(p1, x) == j && !(a.fin)(x)));
        assert((pt_bid(p1, y) == 1 && (a.fin)(y)) || (pt_bid(p1, y) == j && !(a.fin)(y)));
    }
    assert forall|x: u32, y: u32| x < a.n && y < a.n && #[trigger] same_blk(p1, x, y) implies (a.fin)(x) == (a.fin)(y) by {
        assert((pt_bid(p1, x) == 1 && (a.fin)(x)) || (pt_bid(p1, x) == j && !(a.fin)(x)));
        assert((pt_bid(p1, y) == 1 && (a.fin)(y)) || (pt_bid(p1, y) == j && !(a.fin)(y)));
    }
}

// functional, total closures: the Minimizer's view of them as an automaton is sound
pub proof fn lemma_closures_ok<D: Fn(u32, u32) -> u32, F: Fn(u32) -> bool>(m: Minimizer<D, F>)
    requires closures_ok(m.num_states, m.alphabet_size, m.delta, m.is_final), 1 <= m.num_states < u32::MAX - 1, m.alphabet_size >= 1,
    ensures funs_ok(m), aut_ok(mz_aut(m)),
{
    let a = mz_aut(m);
    assert forall|x: u32, c: u32| x < a.n && c < a.m implies #[trigger] (a.d)(x, c) < a.n by {
        if exists|r: u32| call_ensures(m.delta, (x, c), r) {
            let r = choose|r: u32| call_ensures(m.delta, (x, c), r);
            assert(call_ensures(m.delta, (x, c), r));
        }
    }
    assert forall|x: u32, c: u32, r: u32| x < a.n && c < a.m && #[trigger] call_ensures(m.delta, (x, c), r) implies r == (a.d)(x, c) by {
        let r2 = choose|r2: u32| call_ensures(m.delta, (x, c), r2);
        assert(call_ensures(m.delta, (x, c), r2));
    }
    assert forall|x: u32, r: bool| x < a.n && #[trigger] call_ensures(m.is_final, (x,), r) implies r == (a.fin)(x) by {
        let r2 = choose|r2: bool| call_ensures(m.is_final, (x,), r2);
        assert(call_ensures(m.is_final, (x,), r2));
    }
}

// changing one list changes the number of active splitters by the difference
pub proof fn lemma_sum_update(ls: Seq<SplitterList>, b: int, l2: SplitterList)
    requires 0 <= b < ls.len(),
    ensures sum_active(ls.update(b, l2)) + ls[b].num_active == sum_active(ls) + l2.num_active,
    decreases ls.len(),
{
    let ls2 = ls.update(b, l2);
    if b == ls.len() - 1 {
        assert(ls2.drop_last() =~= ls.drop_last());
    } else {
        assert(ls2.drop_last() =~= ls.drop_last().update(b, l2));
        lemma_sum_update(ls.drop_last(), b, l2);
        assert(ls2.last() == ls.last());
        assert(ls.drop_last()[b] == ls[b]);
    }
}
