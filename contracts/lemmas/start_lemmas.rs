// ---- first characters of a language ----
// some member of L(k) starts with c
pub open spec fn starts(k: BaseRegLan, c: u32) -> bool {
    exists|w: Seq<u32>| #[trigger] quot(k, c, w)
}

pub open spec fn nonempty(k: BaseRegLan) -> bool {
    exists|w: Seq<u32>| #[trigger] lang_k(k, w)
}

pub proof fn lemma_starts_range(r: CharSet, c: u32)
    ensures starts(BaseRegLan::Range(r), c) == (cs_has(r, c as int) && c <= MAX_CHAR),
{
    let k = BaseRegLan::Range(r);
    if starts(k, c) {
        let w = choose|w: Seq<u32>| #[trigger] quot(k, c, w);
        lemma_quot_range(r, c, w);
    }
    if cs_has(r, c as int) && c <= MAX_CHAR {
        lemma_quot_range(r, c, eps());
        assert(quot(k, c, eps()));
    }
}

pub proof fn lemma_starts_concat(a: RegLan, b: RegLan, c: u32)
    ensures starts(BaseRegLan::Concat(a, b), c) == ((starts(a.expr, c) && nonempty(b.expr)) || (lang_k(a.expr, eps()) && starts(b.expr, c))),
{
    let k = BaseRegLan::Concat(a, b);
    if starts(k, c) {
        let w = choose|w: Seq<u32>| #[trigger] quot(k, c, w);
        lemma_concat_is_cat(a, b, seq![c] + w);
        lemma_quot_cat(a.expr, b.expr, c, w);
        if exists|i: int| #![trigger wit(i)] 0 <= i <= w.len() && wit(i) && quot(a.expr, c, w.subrange(0, i)) && lang_k(b.expr, w.subrange(i, w.len() as int)) {
            let i = choose|i: int| #![trigger wit(i)] 0 <= i <= w.len() && wit(i) && quot(a.expr, c, w.subrange(0, i)) && lang_k(b.expr, w.subrange(i, w.len() as int));
            assert(quot(a.expr, c, w.subrange(0, i)));
            assert(lang_k(b.expr, w.subrange(i, w.len() as int)));
        } else {
            assert(quot(b.expr, c, w));
        }
    }
    if starts(a.expr, c) && nonempty(b.expr) {
        let w1 = choose|w: Seq<u32>| #[trigger] quot(a.expr, c, w);
        let w2 = choose|w: Seq<u32>| #[trigger] lang_k(b.expr, w);
        let w = w1 + w2;
        let i = w1.len() as int;
        assert(w.subrange(0, i) =~= w1);
        assert(w.subrange(i, w.len() as int) =~= w2);
        assert(wit(i));
        lemma_quot_cat(a.expr, b.expr, c, w);
        lemma_concat_is_cat(a, b, seq![c] + w);
        assert(quot(k, c, w));
    }
    if lang_k(a.expr, eps()) && starts(b.expr, c) {
        let w = choose|w: Seq<u32>| #[trigger] quot(b.expr, c, w);
        lemma_quot_cat(a.expr, b.expr, c, w);
        lemma_concat_is_cat(a, b, seq![c] + w);
        assert(quot(k, c, w));
    }
}

// n copies of a member x of L(a)
pub proof fn lemma_pow_rep(a: BaseRegLan, x: Seq<u32>, n: nat) -> (v: Seq<u32>)
    requires lang_k(a, x),
    ensures pow(a, n, v), n >= 1 ==> (exists|t: Seq<u32>| v == x + t),
    decreases n,
{
    if n == 0 {
        eps()
    } else {
        let t = lemma_pow_rep(a, x, (n - 1) as nat);
        lemma_pow_intro(a, (n - 1) as nat, x, t);
        assert((((n - 1) as nat) + 1) as nat == n);
        x + t
    }
}

pub proof fn lemma_starts_loop(a: RegLan, r: LoopRange, c: u32)
    requires lr_wf(r), !lr_is_zero(r),
    ensures starts(BaseRegLan::Loop(a, r), c) == starts(a.expr, c),
{
    let k = BaseRegLan::Loop(a, r);
    if starts(k, c) {
        let w = choose|w: Seq<u32>| #[trigger] quot(k, c, w);
        lemma_loop_lang(a, r, seq![c] + w);
        let n = choose|n: int| #![trigger wit(n)] 0 <= n && wit(n) && lr_has(r, n) && pow(a.expr, n as nat, seq![c] + w);
        lemma_quot_pow(a.expr, n as nat, c, w);
        assert(n >= 1);
        let i = choose|i: int| #![trigger wit(i)] 0 <= i <= w.len() && wit(i) && quot(a.expr, c, w.subrange(0, i)) && pow(a.expr, (n - 1) as nat, w.subrange(i, w.len() as int));
        assert(quot(a.expr, c, w.subrange(0, i)));
    }
    if starts(a.expr, c) {
        let w1 = choose|w: Seq<u32>| #[trigger] quot(a.expr, c, w);
        let x = seq![c] + w1;
        let n: int = if r.0 >= 1 { r.0 as int } else { 1 };
        assert(lr_has(r, n));
        let v = lemma_pow_rep(a.expr, x, n as nat);
        let t = choose|t: Seq<u32>| v == x + t;
        assert(v =~= seq![c] + (w1 + t));
        assert(wit(n));
        lemma_loop_lang(a, r, v);
        assert(quot(k, c, w1 + t));
    }
}

pub open spec fn starts_any(l: Seq<RegLan>, c: u32, n: int) -> bool {
    exists|i: int| #![trigger wit(i)] 0 <= i < n && wit(i) && starts(l[i].expr, c)
}

pub proof fn lemma_starts_union(l: Box<[RegLan]>, c: u32)
    ensures starts(BaseRegLan::Union(l), c) == starts_any(l@, c, l@.len() as int),
{
    let k = BaseRegLan::Union(l);
    if starts(k, c) {
        let w = choose|w: Seq<u32>| #[trigger] quot(k, c, w);
        let i = choose|i: int| #![trigger wit(i)] 0 <= i < l@.len() && wit(i) && lang_k(l@[i].expr, seq![c] + w);
        assert(quot(l@[i].expr, c, w));
        assert(wit(i));
    }
    if starts_any(l@, c, l@.len() as int) {
        let i = choose|i: int| #![trigger wit(i)] 0 <= i < l@.len() && wit(i) && starts(l@[i].expr, c);
        let w = choose|w: Seq<u32>| #[trigger] quot(l@[i].expr, c, w);
        assert(wit(i));
        assert(quot(k, c, w));
    }
}

pub proof fn lemma_starts_deriv(d: RegLan, e: RegLan, c: u32)
    requires is_deriv(d, e, c),
    ensures starts(e.expr, c) == nonempty(d.expr),
{
    if starts(e.expr, c) {
        let w = choose|w: Seq<u32>| #[trigger] quot(e.expr, c, w);
        assert(lang_k(d.expr, w));
    }
    if nonempty(d.expr) {
        let w = choose|w: Seq<u32>| #[trigger] lang_k(d.expr, w);
        assert(quot(e.expr, c, w));
    }
}

// characters of one derivative class start the same members
pub proof fn lemma_starts_uniform(e: RegLan, x: u32, y: u32, cid: ClassId)
    requires re_ok(*e), in_class(e, x, cid), in_class(e, y, cid),
    ensures starts(e.expr, x) == starts(e.expr, y),
{
    if starts(e.expr, x) {
        let w = choose|w: Seq<u32>| #[trigger] quot(e.expr, x, w);
        lemma_class_uniform(e, x, y, cid, w);
    }
    if starts(e.expr, y) {
        let w = choose|w: Seq<u32>| #[trigger] quot(e.expr, y, w);
        lemma_class_uniform(e, x, y, cid, w);
    }
}
