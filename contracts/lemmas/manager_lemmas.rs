// appending terms keeps ownership of everything already there
pub proof fn lemma_term_of_push(terms: Seq<RegLan>, x: RegLan, e: RegLan)
    requires term_of(terms, e),
    ensures term_of(terms.push(x), e),
{
    assert(terms.push(x)[e.id as int] == terms[e.id as int]);
}

pub proof fn lemma_kids_owned_push(terms: Seq<RegLan>, x: RegLan, k: BaseRegLan)
    requires kids_owned(terms, k),
    ensures kids_owned(terms.push(x), k),
{
    match k {
        BaseRegLan::Concat(a, b) => { lemma_term_of_push(terms, x, a); lemma_term_of_push(terms, x, b); },
        BaseRegLan::Loop(a, r) => { lemma_term_of_push(terms, x, a); },
        BaseRegLan::Complement(a) => { lemma_term_of_push(terms, x, a); },
        BaseRegLan::Union(l) => {
            assert forall|i: int| 0 <= i < l@.len() implies term_of(terms.push(x), #[trigger] l@[i]) by { lemma_term_of_push(terms, x, l@[i]); }
        },
        BaseRegLan::Inter(l) => {
            assert forall|i: int| 0 <= i < l@.len() implies term_of(terms.push(x), #[trigger] l@[i]) by { lemma_term_of_push(terms, x, l@[i]); }
        },
        _ => {},
    }
}

// pushing a fresh, well-formed term whose node is new keeps the table well-formed
pub proof fn lemma_table_push(terms: Seq<RegLan>, x: RegLan)
    requires table_ok(terms), x.id == terms.len(), kids_owned(terms, x.expr), re_ok(*x),
        forall|i: int| 0 <= i < terms.len() ==> (#[trigger] terms[i]).expr != x.expr,
    ensures table_ok(terms.push(x)),
{
    let t2 = terms.push(x);
    assert forall|i: int| 0 <= i < t2.len() implies kids_owned(t2, (#[trigger] t2[i]).expr) && re_ok(*t2[i]) by {
        if i < terms.len() { assert(t2[i] == terms[i]); lemma_kids_owned_push(terms, x, terms[i].expr); }
        else { lemma_kids_owned_push(terms, x, x.expr); }
    }
    assert forall|i: int, j: int| 0 <= i < j < t2.len() implies (#[trigger] t2[i]).expr != (#[trigger] t2[j]).expr by {
        assert(t2[i] == terms[i]);
        if j < terms.len() { assert(t2[j] == terms[j]); }
    }
}

// a node with a sub-term that is not in the table cannot be in the table
pub proof fn lemma_complement_of_new_is_new(terms: Seq<RegLan>, x: RegLan)
    requires table_ok(terms), x.id >= terms.len(),
    ensures forall|i: int| 0 <= i < terms.len() ==> (#[trigger] terms[i]).expr != BaseRegLan::Complement(x),
{
    assert forall|i: int| 0 <= i < terms.len() implies (#[trigger] terms[i]).expr != BaseRegLan::Complement(x) by {
        if terms[i].expr == BaseRegLan::Complement(x) {
            assert(kids_owned(terms, terms[i].expr));
            assert(term_of(terms, x));
        }
    }
}

pub proof fn lemma_xor1(id: usize, n: usize)
    requires id < n, n % 2 == 0,
    ensures (id ^ 1) < n, id % 2 == 0 ==> (id ^ 1) == id + 1, id % 2 == 1 ==> (id ^ 1) == id - 1, ((id ^ 1) ^ 1) == id, (id ^ 1) != id,
{
    assert(id % 2 == 0 ==> (id ^ 1) == id + 1) by (bit_vector);
    assert(id % 2 == 1 ==> (id ^ 1) == id - 1) by (bit_vector);
    assert(((id ^ 1) ^ 1) == id) by (bit_vector);
    assert((id ^ 1) != id) by (bit_vector);
}

pub proof fn lemma_pairs(m: ReManager, j: int)
    requires mgr_wf(m), 0 <= j, 2 * j + 1 < m.store.terms@.len(),
    ensures pair_ok(m.store.terms@, j),
        forall|w: Seq<u32>| #[trigger] lang_k(m.store.terms@[2 * j].expr, w) == (word_ok(w) && !lang_k(m.store.terms@[2 * j + 1].expr, w)),
{
    let t = m.store.terms@;
    assert(pair_ok(t, j));
    assert forall|w: Seq<u32>| #[trigger] lang_k(t[2 * j].expr, w) == (word_ok(w) && !lang_k(t[2 * j + 1].expr, w)) by {
        assert(lang_k(t[2 * j + 1].expr, w) == (word_ok(w) && !lang_k(t[2 * j].expr, w)));
        if lang_k(t[2 * j].expr, w) { lemma_lang_word_ok(t[2 * j].expr, w); }
    }
}

// a structural complement pair is a semantic one
pub proof fn lemma_pair_from_complement(t: Seq<RegLan>, j: int)
    requires 0 <= j, 2 * j + 1 < t.len(), t[2 * j + 1].expr == BaseRegLan::Complement(t[2 * j]),
    ensures pair_ok(t, j),
{
    assert forall|w: Seq<u32>| #[trigger] lang_k(t[2 * j + 1].expr, w) == (word_ok(w) && !lang_k(t[2 * j].expr, w)) by {
        lemma_complement_lang(t[2 * j], w);
    }
}

pub proof fn lemma_pair_at(t: Seq<RegLan>, j: int, w: Seq<u32>)
    requires pair_ok(t, j),
    ensures lang_k(t[2 * j + 1].expr, w) == (word_ok(w) && !lang_k(t[2 * j].expr, w)),
{
}

// AXIOM (resource bound, not a property of the code): a term table never holds 2^64 - 2 terms
// (each term is a leaked heap allocation); it rules out overflow of the id counter.
#[verifier::external_body]
pub proof fn axiom_term_count_bounded(t: Seq<RegLan>)
    ensures t.len() < usize::MAX - 2,
{ }

pub proof fn lemma_owned_extends(m2: ReManager, m1: ReManager, e: RegLan)
    requires mgr_extends(m2, m1), owned(m1, e),
    ensures owned(m2, e),
{
    assert(m2.store.terms@[e.id as int] == m1.store.terms@[e.id as int]);
}

pub proof fn lemma_extends_trans(m3: ReManager, m2: ReManager, m1: ReManager)
    requires mgr_extends(m3, m2), mgr_extends(m2, m1),
    ensures mgr_extends(m3, m1),
{
    assert forall|i: int| 0 <= i < m1.store.terms@.len() implies #[trigger] m3.store.terms@[i] == m1.store.terms@[i] by {
        assert(m2.store.terms@[i] == m1.store.terms@[i]);
    }
}

pub proof fn lemma_owned_facts(m: ReManager, e: RegLan)
    requires mgr_wf(m), owned(m, e),
    ensures re_ok(*e), kids_owned(m.store.terms@, e.expr), kids_ok(e.expr),
{
    let t = m.store.terms@;
    assert(kids_owned(t, (#[trigger] t[e.id as int]).expr) && re_ok(*t[e.id as int]));
}

pub proof fn lemma_same_id(m: ReManager, a: RegLan, b: RegLan)
    requires owned(m, a), owned(m, b), a.id == b.id,
    ensures *a == *b,
{
}
