// ---- derivative classes are uniform: characters of one class have the same left quotient ----
pub open spec fn uniform_k(k: BaseRegLan, l: Seq<CharSet>) -> bool {
    forall|x: u32, y: u32, w: Seq<u32>| #![trigger quot(k, x, w), quot(k, y, w)]
        x <= MAX_CHAR && y <= MAX_CHAR && cl_same(l, x as int, y as int) ==> quot(k, x, w) == quot(k, y, w)
}

// p2 separates at least what p1 separates
pub open spec fn finer(l2: Seq<CharSet>, l1: Seq<CharSet>) -> bool {
    forall|x: int, y: int| #[trigger] cl_same(l2, x, y) ==> cl_same(l1, x, y)
}

pub proof fn lemma_uniform_finer(k: BaseRegLan, l1: Seq<CharSet>, l2: Seq<CharSet>)
    requires uniform_k(k, l1), finer(l2, l1),
    ensures uniform_k(k, l2),
{
    assert forall|x: u32, y: u32, w: Seq<u32>| #![trigger quot(k, x, w), quot(k, y, w)]
        x <= MAX_CHAR && y <= MAX_CHAR && cl_same(l2, x as int, y as int) implies quot(k, x, w) == quot(k, y, w) by {
        assert(cl_same(l1, x as int, y as int));
    }
}

pub proof fn lemma_uniform_atom(k: BaseRegLan, l: Seq<CharSet>)
    requires k is Empty || k is Epsilon,
    ensures uniform_k(k, l),
{
    assert forall|x: u32, y: u32, w: Seq<u32>| #![trigger quot(k, x, w), quot(k, y, w)] quot(k, x, w) == quot(k, y, w) by {
        assert((seq![x] + w).len() == w.len() + 1);
        assert((seq![y] + w).len() == w.len() + 1);
    }
}

pub proof fn lemma_uniform_range(c: CharSet)
    ensures uniform_k(BaseRegLan::Range(c), seq![c]),
{
    let k = BaseRegLan::Range(c);
    assert forall|x: u32, y: u32, w: Seq<u32>| #![trigger quot(k, x, w), quot(k, y, w)]
        x <= MAX_CHAR && y <= MAX_CHAR && cl_same(seq![c], x as int, y as int) implies quot(k, x, w) == quot(k, y, w) by {
        lemma_quot_range(c, x, w);
        lemma_quot_range(c, y, w);
        assert(seq![c][0] == c);
    }
}

pub proof fn lemma_uniform_concat(a: RegLan, b: RegLan, la: Seq<CharSet>, lb: Seq<CharSet>, l: Seq<CharSet>)
    requires uniform_k(a.expr, la), uniform_k(b.expr, lb), finer(l, la), lang_k(a.expr, eps()) ==> finer(l, lb),
    ensures uniform_k(BaseRegLan::Concat(a, b), l),
{
    let k = BaseRegLan::Concat(a, b);
    assert forall|x: u32, y: u32, w: Seq<u32>| #![trigger quot(k, x, w), quot(k, y, w)]
        x <= MAX_CHAR && y <= MAX_CHAR && cl_same(l, x as int, y as int) implies quot(k, x, w) == quot(k, y, w) by {
        lemma_quot_cat(a.expr, b.expr, x, w);
        lemma_quot_cat(a.expr, b.expr, y, w);
        assert(cl_same(la, x as int, y as int));
        // the first disjunct: same split position
        assert forall|i: int| 0 <= i <= w.len() implies quot(a.expr, x, w.subrange(0, i)) == quot(a.expr, y, w.subrange(0, i)) by {}
        if lang_k(a.expr, eps()) { assert(cl_same(lb, x as int, y as int)); assert(quot(b.expr, x, w) == quot(b.expr, y, w)); }
        if quot_cat(a.expr, b.expr, x, w) && !(lang_k(a.expr, eps()) && quot(b.expr, x, w)) {
            let i = choose|i: int| #![trigger wit(i)] 0 <= i <= w.len() && wit(i) && quot(a.expr, x, w.subrange(0, i)) && lang_k(b.expr, w.subrange(i, w.len() as int));
            assert(wit(i) && quot(a.expr, y, w.subrange(0, i)));
        }
        if quot_cat(a.expr, b.expr, y, w) && !(lang_k(a.expr, eps()) && quot(b.expr, y, w)) {
            let i = choose|i: int| #![trigger wit(i)] 0 <= i <= w.len() && wit(i) && quot(a.expr, y, w.subrange(0, i)) && lang_k(b.expr, w.subrange(i, w.len() as int));
            assert(wit(i) && quot(a.expr, x, w.subrange(0, i)));
        }
    }
}

// the range of exponents after one iteration has been consumed
pub open spec fn lr_pred(r: LoopRange) -> LoopRange {
    LoopRange(if r.0 >= 1 { (r.0 - 1) as u32 } else { 0u32 }, if r.1.is_some() { Some((r.1.unwrap() - 1) as u32) } else { None })
}

pub proof fn lemma_lr_pred(r: LoopRange)
    requires lr_wf(r), !lr_is_zero(r),
    ensures forall|n: int| n >= 0 ==> lr_has(lr_pred(r), n) == lr_has(r, n + 1),
{
}

pub proof fn lemma_uniform_loop(a: RegLan, r: LoopRange, la: Seq<CharSet>)
    requires uniform_k(a.expr, la), lr_wf(r), !lr_is_zero(r),
    ensures uniform_k(BaseRegLan::Loop(a, r), la),
{
    let k = BaseRegLan::Loop(a, r);
    let r1 = lr_pred(r);
    lemma_lr_pred(r);
    assert forall|x: u32, y: u32, w: Seq<u32>| #![trigger quot(k, x, w), quot(k, y, w)]
        x <= MAX_CHAR && y <= MAX_CHAR && cl_same(la, x as int, y as int) implies quot(k, x, w) == quot(k, y, w) by {
        lemma_loop_is_in_loop(a, r, seq![x] + w);
        lemma_loop_is_in_loop(a, r, seq![y] + w);
        lemma_quot_loop(a.expr, r, r1, x, w);
        lemma_quot_loop(a.expr, r, r1, y, w);
        if quot_loop(a.expr, r1, x, w) {
            let i = choose|i: int| #![trigger wit(i)] 0 <= i <= w.len() && wit(i) && quot(a.expr, x, w.subrange(0, i)) && in_loop(a.expr, r1, w.subrange(i, w.len() as int));
            assert(wit(i) && quot(a.expr, y, w.subrange(0, i)));
        }
        if quot_loop(a.expr, r1, y, w) {
            let i = choose|i: int| #![trigger wit(i)] 0 <= i <= w.len() && wit(i) && quot(a.expr, y, w.subrange(0, i)) && in_loop(a.expr, r1, w.subrange(i, w.len() as int));
            assert(wit(i) && quot(a.expr, x, w.subrange(0, i)));
        }
    }
}

pub proof fn lemma_uniform_complement(a: RegLan, la: Seq<CharSet>)
    requires uniform_k(a.expr, la),
    ensures uniform_k(BaseRegLan::Complement(a), la),
{
    let k = BaseRegLan::Complement(a);
    assert forall|x: u32, y: u32, w: Seq<u32>| #![trigger quot(k, x, w), quot(k, y, w)]
        x <= MAX_CHAR && y <= MAX_CHAR && cl_same(la, x as int, y as int) implies quot(k, x, w) == quot(k, y, w) by {
        lemma_quot_complement(a, x, w);
        lemma_quot_complement(a, y, w);
    }
}

// a list of terms whose partitions are all refined by l
pub open spec fn list_uniform(args: Seq<RegLan>, l: Seq<CharSet>) -> bool {
    forall|i: int| 0 <= i < args.len() ==> uniform_k((#[trigger] args[i]).expr, l)
}

pub proof fn lemma_uniform_setop(b: Box<[RegLan]>, l: Seq<CharSet>, is_union: bool)
    requires list_uniform(b@, l),
    ensures uniform_k(if is_union { BaseRegLan::Union(b) } else { BaseRegLan::Inter(b) }, l),
{
    let k = if is_union { BaseRegLan::Union(b) } else { BaseRegLan::Inter(b) };
    assert forall|x: u32, y: u32, w: Seq<u32>| #![trigger quot(k, x, w), quot(k, y, w)]
        x <= MAX_CHAR && y <= MAX_CHAR && cl_same(l, x as int, y as int) implies quot(k, x, w) == quot(k, y, w) by {
        lemma_word_ok_cons(x, w);
        lemma_word_ok_cons(y, w);
        assert forall|i: int| 0 <= i < b@.len() implies quot(b@[i].expr, x, w) == quot(b@[i].expr, y, w) by {
            assert(uniform_k((#[trigger] b@[i]).expr, l));
        }
        if is_union {
            if quot(k, x, w) {
                let i = choose|i: int| #![trigger wit(i)] 0 <= i < b@.len() && wit(i) && lang_k(b@[i].expr, seq![x] + w);
                assert(wit(i) && quot(b@[i].expr, y, w));
            }
            if quot(k, y, w) {
                let i = choose|i: int| #![trigger wit(i)] 0 <= i < b@.len() && wit(i) && lang_k(b@[i].expr, seq![y] + w);
                assert(wit(i) && quot(b@[i].expr, x, w));
            }
        } else {
            if quot(k, x, w) {
                assert forall|i: int| #![trigger wit(i)] 0 <= i < b@.len() && wit(i) implies lang_k(b@[i].expr, seq![y] + w) by { assert(quot(b@[i].expr, x, w)); }
            }
            if quot(k, y, w) {
                assert forall|i: int| #![trigger wit(i)] 0 <= i < b@.len() && wit(i) implies lang_k(b@[i].expr, seq![x] + w) by { assert(quot(b@[i].expr, y, w)); }
            }
        }
    }
}

pub proof fn lemma_finer_refl(l: Seq<CharSet>)
    ensures finer(l, l),
{
}

pub proof fn lemma_finer_trans(l3: Seq<CharSet>, l2: Seq<CharSet>, l1: Seq<CharSet>)
    requires finer(l3, l2), finer(l2, l1),
    ensures finer(l3, l1),
{
    assert forall|x: int, y: int| #[trigger] cl_same(l3, x, y) implies cl_same(l1, x, y) by { assert(cl_same(l2, x, y)); }
}
