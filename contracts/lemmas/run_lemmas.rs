// in a well-formed state every character of the alphabet has exactly one successor, inside the automaton
pub proof fn lemma_delta_total(s: State, n: int, c: int)
    requires st_wf(s, n), 0 <= c <= MAX_CHAR,
    ensures 0 <= st_delta(s, c) < n, st_maps(s, c, st_delta(s, c)),
        forall|y: int| st_maps(s, c, y) ==> y == st_delta(s, c),
{
    let l = s.classes.list@;
    if cl_in(l, c) {
        let i = choose|i: int| 0 <= i < l.len() && cs_has(#[trigger] l[i], c);
        assert(s.successor@[i] < n);
        assert forall|y: int| st_maps(s, c, y) implies y == st_delta(s, c) by {
            let j = choose|j: int| 0 <= j < l.len() && cs_has(#[trigger] l[j], c) && s.successor@[j] == y;
            if i < j { assert(l[i].end < l[j].start); }
            if j < i { assert(l[j].end < l[i].start); }
        }
    } else {
        assert(cp_valid(s.classes, ClassId::Complement));
    }
}

pub proof fn lemma_run_snoc(a: Automaton, q: int, w: Seq<u32>, c: u32)
    ensures run(a, q, w.push(c)) == delta(a, run(a, q, w), c as int),
    decreases w.len(),
{
    let wc = w.push(c);
    if w.len() == 0 {
        assert(wc.subrange(1, 1) =~= Seq::<u32>::empty());
        assert(run(a, delta(a, q, c as int), wc.subrange(1, 1)) == delta(a, q, c as int));
    } else {
        assert(wc.subrange(1, wc.len() as int) =~= w.subrange(1, w.len() as int).push(c));
        lemma_run_snoc(a, delta(a, q, w[0] as int), w.subrange(1, w.len() as int), c);
    }
}

pub proof fn lemma_run_in_range(a: Automaton, q: int, w: Seq<u32>)
    requires dfa_wf(a), 0 <= q < a.states@.len(), ss_good(w),
    ensures 0 <= run(a, q, w) < a.states@.len(),
    decreases w.len(),
{
    if w.len() > 0 {
        lemma_delta_total(a.states@[q], a.states@.len() as int, w[0] as int);
        let w1 = w.subrange(1, w.len() as int);
        assert forall|i: int| 0 <= i < w1.len() implies #[trigger] w1[i] <= MAX_CHAR by { assert(w1[i] == w[i + 1]); }
        lemma_run_in_range(a, delta(a, q, w[0] as int), w1);
    }
}
