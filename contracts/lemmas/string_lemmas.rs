// extending a sound path by one derivative step
pub proof fn lemma_path_extend(e0: RegLan, path: Seq<(RegLan, ClassId)>, r: RegLan, cid: ClassId, d: RegLan)
    requires path_sound(e0, path, r), is_class_deriv(d, r, cid),
    ensures path_sound(e0, path.push((r, cid)), d),
{
    let p2 = path.push((r, cid));
    assert forall|w: Seq<u32>| #![trigger quot_by(d.expr, e0.expr, w)] w.len() == p2.len() && picks_path(p2, w) implies quot_by(d.expr, e0.expr, w) by {
        let n = path.len() as int;
        let w1 = w.subrange(0, n);
        let c = w[n];
        assert(w1 + seq![c] =~= w);
        assert(picks_path(path, w1)) by {
            assert forall|i: int| 0 <= i < path.len() && i < w1.len() implies in_class((#[trigger] path[i]).0, w1[i], path[i].1) by {
                assert(p2[i] == path[i]);
                assert(in_class(p2[i].0, w[i], p2[i].1));
            }
        }
        assert(quot_by(r.expr, e0.expr, w1));
        assert(p2[n] == (r, cid));
        assert(in_class(p2[n].0, w[n], p2[n].1));
        assert(lang_k(d.expr, eps()) == quot(r.expr, c, eps()));
        assert(is_deriv(d, r, c));
        lemma_quot_by_step(d, r, e0.expr, w1, c);
    }
}

pub proof fn lemma_path_valid_extend(m: ReManager, path: Seq<(RegLan, ClassId)>, r: RegLan, cid: ClassId)
    requires path_valid(m, path), owned(m, r), cp_valid(*r.deriv_class, cid),
    ensures path_valid(m, path.push((r, cid))),
{
    let p2 = path.push((r, cid));
    assert forall|i: int| 0 <= i < p2.len() implies owned(m, (#[trigger] p2[i]).0) && cp_valid(*p2[i].0.deriv_class, p2[i].1) by {
        if i < path.len() { assert(p2[i] == path[i]); }
    }
}

pub proof fn lemma_path_valid_grows(m2: ReManager, m1: ReManager, path: Seq<(RegLan, ClassId)>)
    requires path_valid(m1, path), grows(m2, m1),
    ensures path_valid(m2, path),
{
    assert forall|i: int| 0 <= i < path.len() implies owned(m2, (#[trigger] path[i]).0) && cp_valid(*path[i].0.deriv_class, path[i].1) by {
        lemma_owned_grows(m2, m1, path[i].0);
    }
}

pub proof fn lemma_gs_step(m1: ReManager, m2: ReManager, q1: LabeledQueue<RegLan, ClassId>, q2: LabeledQueue<RegLan, ClassId>,
                           e0: RegLan, r: RegLan, cid: ClassId, d: RegLan)
    requires gs_frame(m1, q1, e0, r), mgr_wf2(m2), grows(m2, m1), owned(m2, d), is_class_deriv(d, r, cid), cp_valid(*r.deriv_class, cid),
        lq_pushed(q2, q1, r, cid, d), lq_wf(q2),
    ensures gs_frame(m2, q2, e0, r), q2.map@.contains_key(d),
        forall|x: RegLan| q1.map@.contains_key(x) ==> q2.map@.contains_key(x),
{
    let mp1 = q1.map@;
    let mp2 = q2.map@;
    assert forall|x: RegLan| #[trigger] mp2.contains_key(x) implies owned(m2, x) by {
        if mp1.contains_key(x) { lemma_owned_grows(m2, m1, x); }
    }
    lemma_owned_grows(m2, m1, r);
    assert forall|x: RegLan, n: nat| #![trigger chain_len(mp2, mp2[x], n)] mp2.contains_key(x) && chain_len(mp2, mp2[x], n)
        implies path_sound(e0, chain_path(mp2, mp2[x], n), x) && path_valid(m2, chain_path(mp2, mp2[x], n)) by {
        if mp1.contains_key(d) {
            assert(chain_len(mp1, mp1[x], n));
            lemma_path_valid_grows(m2, m1, chain_path(mp1, mp1[x], n));
        } else if x != d {
            assert(mp1.contains_key(x));
            let n0 = choose|n0: nat| chain_len(mp1, mp1[x], n0);
            lemma_chain_insert(mp1, d, Edge::Pred(cid, r), mp1[x], n0);
            assert(mp2[x] == mp1[x]);
            lemma_chain_unique(mp2, mp2[x], n, n0);
            assert(chain_len(mp1, mp1[x], n0));
            lemma_path_valid_grows(m2, m1, chain_path(mp1, mp1[x], n0));
        } else {
            assert(mp2[d] == Edge::<RegLan, ClassId>::Pred(cid, r));
            assert(r != d);
            assert(mp2[r] == mp1[r]);
            let n0 = choose|n0: nat| chain_len(mp1, mp1[r], n0);
            lemma_chain_insert(mp1, d, Edge::Pred(cid, r), mp1[r], n0);
            lemma_chain_unique(mp2, mp2[r], (n - 1) as nat, n0);
            assert(chain_len(mp1, mp1[r], n0));
            let pr = chain_path(mp1, mp1[r], n0);
            assert(chain_path(mp2, mp2[d], n) == pr.push((r, cid)));
            lemma_path_extend(e0, pr, r, cid, d);
            lemma_path_valid_grows(m2, m1, pr);
            lemma_path_valid_extend(m2, pr, r, cid);
        }
    }
    assert forall|x: RegLan| #[trigger] mp2.contains_key(x) && !q2.queue@.contains(x) && x != r implies !lang_k(x.expr, eps()) && closed_at(mp2.dom(), x) by {
        if !mp1.contains_key(d) {
            assert(q2.queue@[q1.queue@.len() as int] == d);
            assert(x != d);
            if q1.queue@.contains(x) { let j = choose|j: int| 0 <= j < q1.queue@.len() && q1.queue@[j] == x; assert(q2.queue@[j] == x); }
        }
        assert(mp1.contains_key(x) && !q1.queue@.contains(x));
        lemma_closed_mono(mp1.dom(), mp2.dom(), x);
    }
    assert(!q2.queue@.contains(r)) by {
        if q2.queue@.contains(r) {
            let j = choose|j: int| 0 <= j < q2.queue@.len() && q2.queue@[j] == r;
            if mp1.contains_key(d) { assert(q1.queue@[j] == r); }
            else if j < q1.queue@.len() { assert(q1.queue@[j] == r); }
        }
    }
}

// after a pop: the popped term (if not nullable) is the one being expanded
pub proof fn lemma_gs_after_pop(m: ReManager, q1: LabeledQueue<RegLan, ClassId>, q2: LabeledQueue<RegLan, ClassId>, e0: RegLan, r: RegLan)
    requires gs_inv(m, q1, e0), lq_wf(q2), q2.map@ == q1.map@, q1.queue@.len() > 0, r == q1.queue@[0],
        q2.queue@ == q1.queue@.subrange(1, q1.queue@.len() as int), !lang_k(r.expr, eps()),
        forall|i: int, j: int| 0 <= i < j < q1.queue@.len() ==> q1.queue@[i] != q1.queue@[j],
    ensures gs_frame(m, q2, e0, r),
{
    assert(q1.map@.contains_key(q1.queue@[0]));
    assert(!q2.queue@.contains(r)) by {
        if q2.queue@.contains(r) {
            let j = choose|j: int| 0 <= j < q2.queue@.len() && q2.queue@[j] == r;
            assert(q1.queue@[j + 1] == r);
        }
    }
    assert forall|x: RegLan| #[trigger] q2.map@.contains_key(x) && !q2.queue@.contains(x) && x != r implies !lang_k(x.expr, eps()) && closed_at(q2.map@.dom(), x) by {
        if q1.queue@.contains(x) {
            let j = choose|j: int| 0 <= j < q1.queue@.len() && q1.queue@[j] == x;
            assert(j > 0);
            assert(q2.queue@[j - 1] == x);
        }
    }
}

// the expansion of r is complete: back to the loop invariant
pub proof fn lemma_gs_after_expand(m: ReManager, q: LabeledQueue<RegLan, ClassId>, e0: RegLan, r: RegLan)
    requires gs_frame(m, q, e0, r), closed_at(q.map@.dom(), r),
    ensures gs_inv(m, q, e0),
{
}

// nothing pending and no nullable term seen: the language is empty
pub proof fn lemma_gs_empty(m: ReManager, q: LabeledQueue<RegLan, ClassId>, e0: RegLan)
    requires gs_inv(m, q, e0), q.queue@.len() == 0,
    ensures forall|w: Seq<u32>| !lang_k(e0.expr, w),
{
    let s = q.map@.dom();
    assert forall|y: RegLan| #[trigger] s.contains(y) implies closed_at(s, y) && !lang_k(y.expr, eps()) by {
        assert(q.map@.contains_key(y) && !q.queue@.contains(y));
    }
    assert forall|w: Seq<u32>| !lang_k(e0.expr, w) by { lemma_closed_empty(s, e0, w); }
}
