// ---- merge_partitions: sweep invariant ----
// x is in an interval of l with index >= i
pub open spec fn later_in(l: Seq<CharSet>, i: int, x: int) -> bool {
    exists|k: int| i <= k < l.len() && cs_has(#[trigger] l[k], x)
}

// membership in the part of l the sweep has not consumed yet: the rest [a,b] of the
// current interval, or a later interval
pub open spec fn rem_in(l: Seq<CharSet>, i: int, a: int, b: int, x: int) -> bool {
    (a <= x <= b && b <= MAX_CHAR) || later_in(l, i, x)
}

pub open spec fn nxt_start(l: Seq<CharSet>, i: int) -> int {
    if 0 <= i < l.len() { l[i].start as int } else { MAX_CHAR + 1 }
}

pub open spec fn nxt_end(l: Seq<CharSet>, i: int) -> int {
    if 0 <= i < l.len() { l[i].end as int } else { MAX_CHAR + 1 }
}

// (i, a, b) is the unprocessed rest of interval i-1 of l, or the sentinel; f is the frontier
pub open spec fn tri_ok(l: Seq<CharSet>, i: int, a: int, b: int, f: int) -> bool {
    &&& 1 <= i <= l.len() + 1
    &&& f <= a
    &&& i <= l.len() ==> l[i - 1].start <= a && a <= b && b == l[i - 1].end && (a == f || a == l[i - 1].start)
    &&& i == l.len() + 1 ==> a == MAX_CHAR + 1 && b == MAX_CHAR + 1
    &&& i >= 2 ==> l[i - 2].end < f
}

pub proof fn lemma_rem(l: Seq<CharSet>, i: int, a: int, b: int, f: int)
    requires cp_sorted(l), tri_ok(l, i, a, b, f),
    ensures
        forall|x: int| x >= f ==> #[trigger] cl_in(l, x) == rem_in(l, i, a, b, x),
        forall|x: int| #[trigger] later_in(l, i, x) ==> x > b && x >= nxt_start(l, i) && x <= MAX_CHAR && i < l.len(),
        b <= MAX_CHAR ==> nxt_start(l, i) > b,
{
    assert forall|x: int| x >= f implies #[trigger] cl_in(l, x) == rem_in(l, i, a, b, x) by {
        if cl_in(l, x) {
            let k = choose|k: int| 0 <= k < l.len() && cs_has(#[trigger] l[k], x);
            if k < i - 1 {
                if k < i - 2 { assert(l[k].end < l[i - 2].start); }
            } else if k == i - 1 {
            } else {
                assert(later_in(l, i, x));
            }
        }
        if rem_in(l, i, a, b, x) {
            if a <= x <= b && b <= MAX_CHAR {
                assert(cs_has(l[i - 1], x));
            } else {
                let k = choose|k: int| i <= k < l.len() && cs_has(#[trigger] l[k], x);
                assert(cs_has(l[k], x));
            }
        }
    }
    assert forall|x: int| #[trigger] later_in(l, i, x) implies x > b && x >= nxt_start(l, i) && x <= MAX_CHAR && i < l.len() by {
        let k = choose|k: int| i <= k < l.len() && cs_has(#[trigger] l[k], x);
        if k > i { assert(l[i].end < l[k].start); }
        if i <= l.len() { assert(l[i - 1].end < l[k].start); }
    }
    if b <= MAX_CHAR && i < l.len() { assert(l[i - 1].end < l[i].start); }
}

// consuming interval i: what was "later than i-1" is now "current or later than i"
pub proof fn lemma_next(l: Seq<CharSet>, i: int)
    requires cp_sorted(l), 0 <= i <= l.len(),
    ensures
        forall|f: int| (i >= 1 ==> l[i - 1].end < f) && f <= nxt_start(l, i) ==>
            #[trigger] tri_ok(l, i + 1, nxt_start(l, i), nxt_end(l, i), f),
        forall|x: int| #[trigger] later_in(l, i, x) == rem_in(l, i + 1, nxt_start(l, i), nxt_end(l, i), x),
{
    let a2 = nxt_start(l, i);
    let b2 = nxt_end(l, i);
    assert forall|x: int| #[trigger] later_in(l, i, x) == rem_in(l, i + 1, a2, b2, x) by {
        if later_in(l, i, x) {
            let k = choose|k: int| i <= k < l.len() && cs_has(#[trigger] l[k], x);
            if k > i { assert(later_in(l, i + 1, x)); }
        }
        if rem_in(l, i + 1, a2, b2, x) {
            if a2 <= x <= b2 && b2 <= MAX_CHAR {
                assert(cs_has(l[i], x));
            } else {
                let k = choose|k: int| i + 1 <= k < l.len() && cs_has(#[trigger] l[k], x);
                assert(cs_has(l[k], x));
            }
        }
    }
}

pub proof fn lemma_push_in(l: Seq<CharSet>, c: CharSet)
    ensures forall|x: int| #[trigger] cl_in(l.push(c), x) == (cl_in(l, x) || cs_has(c, x)),
{
    let l2 = l.push(c);
    let n = l.len() as int;
    assert forall|x: int| #[trigger] cl_in(l2, x) == (cl_in(l, x) || cs_has(c, x)) by {
        if cl_in(l, x) {
            let i = choose|i: int| 0 <= i < l.len() && cs_has(#[trigger] l[i], x);
            assert(cs_has(l2[i], x));
        }
        if cs_has(c, x) { assert(cs_has(l2[n], x)); }
        if cl_in(l2, x) {
            let i = choose|i: int| 0 <= i < l2.len() && cs_has(#[trigger] l2[i], x);
            if i < n { assert(cs_has(l[i], x)); }
        }
    }
}

// every interval of r lies inside one class of l (an interval of l, or its complementary class)
pub open spec fn in_one_class(l: Seq<CharSet>, r: CharSet) -> bool {
    cl_covered_by_some(l, r) || cl_disjoint_all(l, r)
}

pub open spec fn refines(r: Seq<CharSet>, l: Seq<CharSet>) -> bool {
    forall|k: int| 0 <= k < r.len() ==> in_one_class(l, #[trigger] r[k])
}

// nothing of the result lies at or beyond the frontier
pub open spec fn res_below(r: Seq<CharSet>, f: int) -> bool {
    forall|k: int| 0 <= k < r.len() ==> (#[trigger] r[k]).end < f
}

pub proof fn lemma_res_below(r: Seq<CharSet>, f: int)
    requires res_below(r, f),
    ensures forall|x: int| x >= f ==> !#[trigger] cl_in(r, x),
{
    assert forall|x: int| x >= f implies !#[trigger] cl_in(r, x) by {
        if cl_in(r, x) {
            let k = choose|k: int| 0 <= k < r.len() && cs_has(#[trigger] r[k], x);
        }
    }
}

// the interval [s,e] just pushed lies inside the current interval of l or entirely before it
pub proof fn lemma_pushed_class(l: Seq<CharSet>, i: int, a: int, b: int, f: int, s: int, e: int)
    requires cp_sorted(l), tri_ok(l, i, a, b, f), 0 <= f <= s <= e <= MAX_CHAR,
        (a <= s && e <= b) || e < a,
    ensures in_one_class(l, CharSet { start: s as u32, end: e as u32 }),
{
    let r = CharSet { start: s as u32, end: e as u32 };
    lemma_rem(l, i, a, b, f);
    if a <= s && e <= b {
        assert(i <= l.len());
        assert(cl_covered_by(l, r, i - 1));
    } else {
        assert forall|x: int| cs_has(r, x) implies !cl_in(l, x) by {
            assert(cl_in(l, x) == rem_in(l, i, a, b, x));
        }
    }
}

// characters e and e+1 are separated by l: some interval of l holds exactly one of them
pub open spec fn splits(l: Seq<CharSet>, e: int) -> bool {
    exists|k: int| 0 <= k < l.len() && cs_has(#[trigger] l[k], e) != cs_has(l[k], e + 1)
}

// no result interval could be extended to the right without merging two classes of l1 or of l2
pub open spec fn maximal(r: Seq<CharSet>, l1: Seq<CharSet>, l2: Seq<CharSet>) -> bool {
    forall|k: int| 0 <= k < r.len() ==> splits(l1, (#[trigger] r[k]).end as int) || splits(l2, r[k].end as int)
}

pub proof fn lemma_after_push(l1: Seq<CharSet>, l2: Seq<CharSet>, i: int, a: int, b: int, j: int, c: int, d: int, f: int, old_res: Seq<CharSet>, s: int, e: int)
    requires cp_sorted(l1), cp_sorted(l2), tri_ok(l1, i, a, b, f), tri_ok(l2, j, c, d, f), 0 <= f <= s <= e <= MAX_CHAR,
        (a <= s && e <= b) || e < a,
        (c <= s && e <= d) || e < c,
        (e == b && i <= l1.len()) || (e + 1 == a && i <= l1.len() && a == l1[i - 1].start)
            || (e == d && j <= l2.len()) || (e + 1 == c && j <= l2.len() && c == l2[j - 1].start),
        refines(old_res, l1), refines(old_res, l2), maximal(old_res, l1, l2),
    ensures
        forall|x: int| #[trigger] cl_in(old_res.push(CharSet { start: s as u32, end: e as u32 }), x) == (cl_in(old_res, x) || s <= x <= e),
        refines(old_res.push(CharSet { start: s as u32, end: e as u32 }), l1),
        refines(old_res.push(CharSet { start: s as u32, end: e as u32 }), l2),
        maximal(old_res.push(CharSet { start: s as u32, end: e as u32 }), l1, l2),
{
    let r = CharSet { start: s as u32, end: e as u32 };
    lemma_push_in(old_res, r);
    lemma_pushed_class(l1, i, a, b, f, s, e);
    lemma_pushed_class(l2, j, c, d, f, s, e);
    let nr = old_res.push(r);
    assert forall|k: int| 0 <= k < nr.len() implies in_one_class(l1, #[trigger] nr[k]) && in_one_class(l2, nr[k]) by {
        if k < old_res.len() { assert(nr[k] == old_res[k]); }
    }
    if (e == b && i <= l1.len()) || (e + 1 == a && i <= l1.len() && a == l1[i - 1].start) {
        assert(cs_has(l1[i - 1], e) != cs_has(l1[i - 1], e + 1));
        assert(splits(l1, e));
    } else {
        assert(cs_has(l2[j - 1], e) != cs_has(l2[j - 1], e + 1));
        assert(splits(l2, e));
    }
    assert forall|k: int| 0 <= k < nr.len() implies splits(l1, (#[trigger] nr[k]).end as int) || splits(l2, nr[k].end as int) by {
        if k < old_res.len() { assert(nr[k] == old_res[k]); }
    }
}

// refinement composes, given that the coarser partition covers at least what p covers
pub proof fn lemma_refines_trans(r2: Seq<CharSet>, r: Seq<CharSet>, p: Seq<CharSet>)
    requires refines(r2, r), refines(r, p), forall|x: int| cl_in(p, x) ==> cl_in(r, x),
    ensures refines(r2, p),
{
    assert forall|k: int| 0 <= k < r2.len() implies in_one_class(p, #[trigger] r2[k]) by {
        let q = r2[k];
        assert(in_one_class(r, q));
        if cl_covered_by_some(r, q) {
            let m = choose|m: int| 0 <= m < r.len() && #[trigger] cl_covered_by(r, q, m);
            assert(in_one_class(p, r[m]));
            if cl_covered_by_some(p, r[m]) {
                let n = choose|n: int| 0 <= n < p.len() && #[trigger] cl_covered_by(p, r[m], n);
                assert forall|x: int| cs_has(q, x) implies cs_has(p[n], x) by { assert(cs_has(r[m], x)); }
                assert(cl_covered_by(p, q, n));
            } else {
                assert forall|x: int| cs_has(q, x) implies !cl_in(p, x) by { assert(cs_has(r[m], x)); }
            }
        } else {
            assert forall|x: int| cs_has(q, x) implies !cl_in(p, x) by { assert(!cl_in(r, x)); }
        }
    }
}

// x and y are in the same class of the partition given by the interval list l
pub open spec fn cl_same(l: Seq<CharSet>, x: int, y: int) -> bool {
    forall|i: int| 0 <= i < l.len() ==> cs_has(#[trigger] l[i], x) == cs_has(l[i], y)
}

// a refinement (as established by merge_partitions) never separates less than the partition it refines
pub proof fn lemma_refines_same(r: Seq<CharSet>, p: Seq<CharSet>, x: int, y: int)
    requires cp_sorted(r), cp_sorted(p), refines(r, p), forall|c: int| cl_in(p, c) ==> cl_in(r, c), cl_same(r, x, y),
    ensures cl_same(p, x, y),
{
    assert forall|i: int| 0 <= i < p.len() implies cs_has(#[trigger] p[i], x) == cs_has(p[i], y) by {
        if cs_has(p[i], x) || cs_has(p[i], y) {
            // one of them is in p, hence in r; the other one is in the same interval of r
            let z = if cs_has(p[i], x) { x } else { y };
            assert(cl_in(p, z));
            assert(cl_in(r, z));
            let k = choose|k: int| 0 <= k < r.len() && cs_has(#[trigger] r[k], z);
            assert(cs_has(r[k], x) && cs_has(r[k], y));
            assert(in_one_class(p, r[k]));
            if cl_covered_by_some(p, r[k]) {
                let m = choose|m: int| 0 <= m < p.len() && #[trigger] cl_covered_by(p, r[k], m);
                assert(cs_has(p[m], x) && cs_has(p[m], y));
                if m < i { assert(p[m].end < p[i].start); }
                if i < m { assert(p[i].end < p[m].start); }
            } else {
                assert(!cl_in(p, z));
            }
        }
    }
}

pub proof fn lemma_merge_same(r: Seq<CharSet>, p1: Seq<CharSet>, p2: Seq<CharSet>, x: int, y: int)
    requires cp_sorted(r), cp_sorted(p1), cp_sorted(p2), refines(r, p1), refines(r, p2),
        forall|c: int| #[trigger] cl_in(r, c) == (cl_in(p1, c) || cl_in(p2, c)), cl_same(r, x, y),
    ensures cl_same(p1, x, y), cl_same(p2, x, y),
{
    lemma_refines_same(r, p1, x, y);
    lemma_refines_same(r, p2, x, y);
}
