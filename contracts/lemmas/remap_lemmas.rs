pub proof fn lemma_run_cons(a: Automaton, q: int, c: u32, u: Seq<u32>)
    ensures run(a, q, seq![c] + u) == run(a, delta(a, q, c as int), u),
{
    let w = seq![c] + u;
    assert(w[0] == c);
    assert(w.subrange(1, w.len() as int) =~= u);
}

pub proof fn lemma_good_cons(c: u32, u: Seq<u32>)
    requires c <= MAX_CHAR, ss_good(u),
    ensures ss_good(seq![c] + u),
{
    let w = seq![c] + u;
    assert forall|i: int| 0 <= i < w.len() implies #[trigger] w[i] <= MAX_CHAR by { if i > 0 { assert(w[i] == u[i - 1]); } }
}

// the renumbered state of a kept state q steps like q
pub proof fn lemma_remap_delta(a: Automaton, a2: Automaton, r: StateMapping, q: int, c: u32)
    requires dfa_wf(a), aut_remapped(a2, a, r), map_ok(r, a.states@.len() as int), kept(r, q), c <= MAX_CHAR,
    ensures delta(a2, r.new_id@[q] as int, c as int) == r.new_id@[delta(a, q, c as int)], 0 <= delta(a, q, c as int) < a.states@.len(),
        a2.states@[r.new_id@[q] as int].is_final == a.states@[q].is_final,
{
    let j = r.new_id@[q] as int;
    assert(st_remapped(a2.states@[j], a.states@[r.old_id@[j] as int], r));
    lemma_delta_total(a.states@[q], a.states@.len() as int, c as int);
    let s1 = a.states@[q];
    let s2 = a2.states@[j];
    if cl_in(s1.classes.list@, c as int) {
        let i = choose|i: int| 0 <= i < s1.classes.list@.len() && cs_has(#[trigger] s1.classes.list@[i], c as int);
        assert(s2.successor@[i] == r.new_id@[s1.successor@[i] as int]);
    }
}

// renumbering preserves runs and acceptance from a kept state all of whose successors (by any word) are kept
pub proof fn lemma_remap_run(a: Automaton, a2: Automaton, r: StateMapping, q: int, w: Seq<u32>)
    requires dfa_wf(a), aut_remapped(a2, a, r), map_ok(r, a.states@.len() as int), ss_good(w),
        forall|u: Seq<u32>| ss_good(u) ==> kept(r, #[trigger] run(a, q, u)),
    ensures run(a2, r.new_id@[q] as int, w) == r.new_id@[run(a, q, w)],
        kept(r, run(a, q, w)),
        accepts_from(a2, r.new_id@[q] as int, w) == accepts_from(a, q, w),
    decreases w.len(),
{
    assert(run(a, q, Seq::<u32>::empty()) == q);
    assert(ss_good(Seq::<u32>::empty()));
    assert(kept(r, q));
    if w.len() == 0 {
        let j = r.new_id@[q] as int;
        assert(st_remapped(a2.states@[j], a.states@[r.old_id@[j] as int], r));
    } else {
        let c = w[0];
        let w1 = w.subrange(1, w.len() as int);
        assert(seq![c] + w1 =~= w);
        assert forall|i: int| 0 <= i < w1.len() implies #[trigger] w1[i] <= MAX_CHAR by { assert(w1[i] == w[i + 1]); }
        lemma_remap_delta(a, a2, r, q, c);
        let q1 = delta(a, q, c as int);
        assert forall|u: Seq<u32>| ss_good(u) implies kept(r, #[trigger] run(a, q1, u)) by {
            lemma_run_cons(a, q, c, u);
            lemma_good_cons(c, u);
            assert(kept(r, run(a, q, seq![c] + u)));
        }
        lemma_remap_run(a, a2, r, q1, w1);
    }
}

// a set of states closed under delta contains every state reached from one of its members
pub proof fn lemma_closed_run(a: Automaton, s: Set<usize>, q: usize, w: Seq<u32>)
    requires dfa_wf(a), closed_states(a, s), s.contains(q), ss_good(w),
    ensures 0 <= run(a, q as int, w) < a.states@.len(), s.contains(run(a, q as int, w) as usize),
    decreases w.len(),
{
    if w.len() > 0 {
        let c = w[0];
        let w1 = w.subrange(1, w.len() as int);
        assert forall|i: int| 0 <= i < w1.len() implies #[trigger] w1[i] <= MAX_CHAR by { assert(w1[i] == w[i + 1]); }
        lemma_delta_total(a.states@[q as int], a.states@.len() as int, c as int);
        let q1 = delta(a, q as int, c as int) as usize;
        assert(s.contains(q1));
        lemma_closed_run(a, s, q1, w1);
    }
}

// no_duplicates + all below n ==> at most n elements
pub proof fn lemma_pigeon(s: Seq<usize>, n: nat)
    requires s.no_duplicates(), forall|i: int| 0 <= i < s.len() ==> #[trigger] s[i] < n,
    ensures s.len() <= n,
    decreases n,
{
    if s.len() > 0 {
        if n == 0 {
            assert(s[0] < n);
        } else {
            let top = (n - 1) as usize;
            if s.contains(top) {
                let k = choose|k: int| 0 <= k < s.len() && s[k] == top;
                let s2 = s.remove(k);
                assert forall|i: int, j: int| 0 <= i < s2.len() && 0 <= j < s2.len() && i != j implies s2[i] != s2[j] by {
                    let i0 = if i < k { i } else { i + 1 };
                    let j0 = if j < k { j } else { j + 1 };
                    assert(s2[i] == s[i0] && s2[j] == s[j0]);
                }
                assert forall|i: int| 0 <= i < s2.len() implies #[trigger] s2[i] < (n - 1) as nat by {
                    let i0 = if i < k { i } else { i + 1 };
                    assert(s2[i] == s[i0]);
                    assert(s[i0] != s[k]);
                }
                lemma_pigeon(s2, (n - 1) as nat);
            } else {
                assert forall|i: int| 0 <= i < s.len() implies #[trigger] s[i] < (n - 1) as nat by {
                    assert(s.contains(s[i]));
                }
                lemma_pigeon(s, (n - 1) as nat);
            }
        }
    }
}

pub proof fn lemma_good_push(w: Seq<u32>, c: u32)
    requires ss_good(w), c <= MAX_CHAR,
    ensures ss_good(w.push(c)),
{
    let w2 = w.push(c);
    assert forall|i: int| 0 <= i < w2.len() implies #[trigger] w2[i] <= MAX_CHAR by { if i < w.len() { assert(w2[i] == w[i]); } }
}

// a successor of a reachable state is reachable
pub proof fn lemma_edge_reach(a: Automaton, i: int, c: u32)
    requires dfa_wf(a), 0 <= i < a.states@.len(), is_reachable(a, i), c <= MAX_CHAR,
    ensures is_reachable(a, delta(a, i, c as int)),
{
    let w = choose|w: Seq<u32>| ss_good(w) && #[trigger] run(a, a.initial_state as int, w) == i;
    lemma_run_snoc(a, a.initial_state as int, w, c);
    lemma_good_push(w, c);
    assert(run(a, a.initial_state as int, w.push(c)) == delta(a, i, c as int));
}

// the k-th explicit successor of a state is its successor for the first character of class k
pub proof fn lemma_succ_is_delta(s: State, n: int, k: int) -> (c: u32)
    requires st_wf(s, n), 0 <= k < s.successor@.len(),
    ensures c <= MAX_CHAR, st_delta(s, c as int) == s.successor@[k],
{
    let c = s.classes.list@[k].start;
    assert(cs_wf(s.classes.list@[k]));
    assert(cs_has(s.classes.list@[k], c as int));
    lemma_delta_total(s, n, c as int);
    assert(st_maps(s, c as int, s.successor@[k] as int));
    c
}

// the default successor of a state is its successor for some character
pub proof fn lemma_default_is_delta(s: State, n: int) -> (c: u32)
    requires st_wf(s, n), s.default_successor.is_some(),
    ensures c <= MAX_CHAR, st_delta(s, c as int) == s.default_successor.unwrap(),
{
    assert(cp_valid(s.classes, ClassId::Complement));
    let x = choose|x: int| 0 <= x <= MAX_CHAR && !cl_in(s.classes.list@, x);
    x as u32
}

// every successor of s is an explicit successor or the default
pub proof fn lemma_delta_is_edge(s: State, n: int, c: u32)
    requires st_wf(s, n), c <= MAX_CHAR,
    ensures (exists|k: int| 0 <= k < s.successor@.len() && #[trigger] s.successor@[k] == st_delta(s, c as int))
        || s.default_successor == Some(st_delta(s, c as int) as usize),
{
    lemma_delta_total(s, n, c as int);
    if cl_in(s.classes.list@, c as int) {
        let i = choose|i: int| 0 <= i < s.classes.list@.len() && cs_has(#[trigger] s.classes.list@[i], c as int);
        assert(s.successor@[i] == st_delta(s, c as int));
    }
}

// characters in one class of a combined partition have the same successor in every state
pub proof fn lemma_combined_uniform(a: Automaton, p: CharPartition, q: int, x: int, y: int, j: int)
    requires dfa_wf(a), is_combined(p, a), 0 <= q < a.states@.len(), in_class_no(p, x, j), in_class_no(p, y, j),
    ensures delta(a, q, x) == delta(a, q, y),
{
    let l = p.list@;
    let s = a.states@[q];
    let ls = s.classes.list@;
    assert(cl_same(l, x, y)) by {
        assert forall|i: int| 0 <= i < l.len() implies cs_has(#[trigger] l[i], x) == cs_has(l[i], y) by {
            if j < l.len() {
                if i < j { assert(l[i].end < l[j].start); }
                if j < i { assert(l[j].end < l[i].start); }
            } else {
                if cs_has(l[i], x) { assert(cl_in(l, x)); }
                if cs_has(l[i], y) { assert(cl_in(l, y)); }
            }
        }
    }
    assert(st_wf(s, a.states@.len() as int));
    assert forall|c: int| cl_in(ls, c) implies cl_in(l, c) by {}
    lemma_refines_same(l, ls, x, y);
    lemma_delta_total(s, a.states@.len() as int, x);
    lemma_delta_total(s, a.states@.len() as int, y);
    if cl_in(ls, x) {
        let i = choose|i: int| 0 <= i < ls.len() && cs_has(#[trigger] ls[i], x);
        assert(cs_has(ls[i], y));
        assert(st_maps(s, y, s.successor@[i] as int));
        assert(st_maps(s, x, s.successor@[i] as int));
    } else {
        assert(!cl_in(ls, y)) by {
            if cl_in(ls, y) {
                let i = choose|i: int| 0 <= i < ls.len() && cs_has(#[trigger] ls[i], y);
                assert(cs_has(ls[i], x));
            }
        }
    }
}
