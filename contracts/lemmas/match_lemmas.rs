pub proof fn lemma_first_match_unique(k: BaseRegLan, s: Seq<u32>, from: int, i: int, j: int, i2: int, j2: int, ae: bool)
    requires first_match(k, s, from, i, j, ae), first_match(k, s, from, i2, j2, ae),
    ensures i == i2, j == j2,
{
    assert(is_match(k, s, i, j, ae));
    assert(is_match(k, s, i2, j2, ae));
}

pub proof fn lemma_replace_re_all_step(k: BaseRegLan, s: Seq<u32>, t: Seq<u32>, from: int, i: int, j: int)
    requires 0 <= from <= s.len(), first_match(k, s, from, i, j, false),
    ensures replace_re_all_from(k, s, t, from) == s.subrange(from, i) + t + replace_re_all_from(k, s, t, j), from < j <= s.len(),
{
    assert(first_match(k, s, from, (i, j).0, (i, j).1, false));
    assert(has_first_match(k, s, from));
    let p = choose|p: (int, int)| #[trigger] first_match(k, s, from, p.0, p.1, false);
    lemma_first_match_unique(k, s, from, i, j, p.0, p.1, false);
    assert(is_match(k, s, i, j, false));
}

pub proof fn lemma_replace_re_all_done(k: BaseRegLan, s: Seq<u32>, t: Seq<u32>, from: int)
    requires 0 <= from <= s.len(), no_match_from(k, s, from, false),
    ensures replace_re_all_from(k, s, t, from) == s.subrange(from, s.len() as int),
{
    if has_first_match(k, s, from) {
        let p = choose|p: (int, int)| #[trigger] first_match(k, s, from, p.0, p.1, false);
        assert(is_match(k, s, p.0, p.1, false));
    }
}

// the derivative by s[i..j) of the pattern is nullable iff s[i..j) matches; used by the search loop
pub proof fn lemma_subrange_snoc(s: Seq<u32>, i: int, j: int)
    requires 0 <= i <= j < s.len(),
    ensures s.subrange(i, j + 1) == s.subrange(i, j) + seq![s[j]],
{
    assert(s.subrange(i, j + 1) =~= s.subrange(i, j) + seq![s[j]]);
}
