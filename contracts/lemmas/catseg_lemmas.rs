// ---- concatenation of the languages of x[a..b) ----
pub open spec fn cat_seg(x: Seq<RegLan>, a: int, b: int, w: Seq<u32>) -> bool
    decreases b - a,
{
    if a >= b { w.len() == 0 }
    else { exists|i: int| #![trigger wit(i)] 0 <= i <= w.len() && wit(i) && lang_k(x[a].expr, w.subrange(0, i)) && cat_seg(x, a + 1, b, w.subrange(i, w.len() as int)) }
}

pub proof fn lemma_cat_seg_from(x: Seq<RegLan>, a: int, w: Seq<u32>)
    requires 0 <= a,
    ensures cat_seg(x, a, x.len() as int, w) == cat_from(x, a, w),
    decreases x.len() - a,
{
    if a < x.len() {
        assert forall|i: int| 0 <= i <= w.len() implies cat_seg(x, a + 1, x.len() as int, #[trigger] w.subrange(i, w.len() as int)) == cat_from(x, a + 1, w.subrange(i, w.len() as int)) by {
            lemma_cat_seg_from(x, a + 1, w.subrange(i, w.len() as int));
        }
        if cat_seg(x, a, x.len() as int, w) {
            let i = choose|i: int| #![trigger wit(i)] 0 <= i <= w.len() && wit(i) && lang_k(x[a].expr, w.subrange(0, i)) && cat_seg(x, a + 1, x.len() as int, w.subrange(i, w.len() as int));
            assert(cat_from(x, a + 1, w.subrange(i, w.len() as int)));
            assert(wit(i));
        }
        if cat_from(x, a, w) {
            let i = choose|i: int| #![trigger wit(i)] 0 <= i <= w.len() && wit(i) && lang_k(x[a].expr, w.subrange(0, i)) && cat_from(x, a + 1, w.subrange(i, w.len() as int));
            assert(cat_seg(x, a + 1, x.len() as int, w.subrange(i, w.len() as int)));
            assert(wit(i));
        }
    }
}

// w = w1 . w2 with w1 in x[a..m) and w2 in x[m..b)
pub open spec fn seg_split(x: Seq<RegLan>, a: int, m: int, b: int, w: Seq<u32>) -> bool {
    exists|i: int| #![trigger wit(i)] 0 <= i <= w.len() && wit(i) && cat_seg(x, a, m, w.subrange(0, i)) && cat_seg(x, m, b, w.subrange(i, w.len() as int))
}

pub proof fn lemma_seg_split(x: Seq<RegLan>, a: int, m: int, b: int, w: Seq<u32>)
    requires a <= m <= b,
    ensures cat_seg(x, a, b, w) == seg_split(x, a, m, b, w),
    decreases m - a,
{
    if a == m {
        if cat_seg(x, a, b, w) {
            assert(w.subrange(0, 0).len() == 0);
            assert(w.subrange(0, w.len() as int) =~= w);
            assert(wit(0));
        }
        if seg_split(x, a, m, b, w) {
            let i = choose|i: int| #![trigger wit(i)] 0 <= i <= w.len() && wit(i) && cat_seg(x, a, m, w.subrange(0, i)) && cat_seg(x, m, b, w.subrange(i, w.len() as int));
            assert(i == 0);
            assert(w.subrange(0, w.len() as int) =~= w);
        }
    } else {
        if cat_seg(x, a, b, w) {
            let i = choose|i: int| #![trigger wit(i)] 0 <= i <= w.len() && wit(i) && lang_k(x[a].expr, w.subrange(0, i)) && cat_seg(x, a + 1, b, w.subrange(i, w.len() as int));
            let t = w.subrange(i, w.len() as int);
            lemma_seg_split(x, a + 1, m, b, t);
            let d = choose|d: int| #![trigger wit(d)] 0 <= d <= t.len() && wit(d) && cat_seg(x, a + 1, m, t.subrange(0, d)) && cat_seg(x, m, b, t.subrange(d, t.len() as int));
            lemma_sub3(w, i, i + d);
            let u = w.subrange(0, i + d);
            assert(u.subrange(0, i) == w.subrange(0, i));
            assert(u.subrange(i, u.len() as int) == t.subrange(0, d));
            assert(wit(i));
            assert(cat_seg(x, a, m, u));
            assert(wit(i + d));
        }
        if seg_split(x, a, m, b, w) {
            let j = choose|j: int| #![trigger wit(j)] 0 <= j <= w.len() && wit(j) && cat_seg(x, a, m, w.subrange(0, j)) && cat_seg(x, m, b, w.subrange(j, w.len() as int));
            let u = w.subrange(0, j);
            let i = choose|i: int| #![trigger wit(i)] 0 <= i <= u.len() && wit(i) && lang_k(x[a].expr, u.subrange(0, i)) && cat_seg(x, a + 1, m, u.subrange(i, u.len() as int));
            lemma_sub3(w, i, j);
            let t = w.subrange(i, w.len() as int);
            assert(wit(j - i));
            assert(seg_split(x, a + 1, m, b, t));
            lemma_seg_split(x, a + 1, m, b, t);
            assert(wit(i));
        }
    }
}

// the same terms at shifted positions have the same concatenation
pub proof fn lemma_seg_shift(x: Seq<RegLan>, a: int, b: int, y: Seq<RegLan>, d: int, w: Seq<u32>)
    requires 0 <= a <= b <= x.len(), 0 <= a + d, b + d <= y.len(), forall|k: int| a <= k < b ==> x[k] == y[k + d],
    ensures cat_seg(x, a, b, w) == cat_seg(y, a + d, b + d, w),
    decreases b - a,
{
    if a < b {
        assert forall|i: int| 0 <= i <= w.len() implies cat_seg(x, a + 1, b, #[trigger] w.subrange(i, w.len() as int)) == cat_seg(y, a + 1 + d, b + d, w.subrange(i, w.len() as int)) by {
            lemma_seg_shift(x, a + 1, b, y, d, w.subrange(i, w.len() as int));
        }
        if cat_seg(x, a, b, w) {
            let i = choose|i: int| #![trigger wit(i)] 0 <= i <= w.len() && wit(i) && lang_k(x[a].expr, w.subrange(0, i)) && cat_seg(x, a + 1, b, w.subrange(i, w.len() as int));
            assert(cat_seg(y, a + 1 + d, b + d, w.subrange(i, w.len() as int)));
            assert(wit(i));
        }
        if cat_seg(y, a + d, b + d, w) {
            let i = choose|i: int| #![trigger wit(i)] 0 <= i <= w.len() && wit(i) && lang_k(y[a + d].expr, w.subrange(0, i)) && cat_seg(y, a + d + 1, b + d, w.subrange(i, w.len() as int));
            assert(cat_seg(x, a + 1, b, w.subrange(i, w.len() as int)));
            assert(wit(i));
        }
    }
}

// every word of a concatenation of well-formed terms is over the alphabet
pub proof fn lemma_seg_word_ok(x: Seq<RegLan>, a: int, b: int, w: Seq<u32>)
    requires cat_seg(x, a, b, w),
    ensures word_ok(w),
    decreases b - a,
{
    if a < b {
        let i = choose|i: int| #![trigger wit(i)] 0 <= i <= w.len() && wit(i) && lang_k(x[a].expr, w.subrange(0, i)) && cat_seg(x, a + 1, b, w.subrange(i, w.len() as int));
        lemma_lang_word_ok(x[a].expr, w.subrange(0, i));
        lemma_seg_word_ok(x, a + 1, b, w.subrange(i, w.len() as int));
        lemma_word_ok_concat(w.subrange(0, i), w.subrange(i, w.len() as int));
        assert(w.subrange(0, i) + w.subrange(i, w.len() as int) =~= w);
    }
}

// pointwise inclusion of character ranges gives inclusion of the concatenations
pub proof fn lemma_seg_rigid(u: Seq<RegLan>, a: int, v: Seq<RegLan>, s: int, n: int, w: Seq<u32>)
    requires rigid_seg(u, a, v, s, n), cat_seg(u, a, a + n, w),
    ensures cat_seg(v, s, s + n, w),
    decreases n,
{
    if n > 0 {
        let i = choose|i: int| #![trigger wit(i)] 0 <= i <= w.len() && wit(i) && lang_k(u[a].expr, w.subrange(0, i)) && cat_seg(u, a + 1, a + n, w.subrange(i, w.len() as int));
        assert(range_in_range(u[a + 0].expr, v[s + 0].expr));
        assert(lang_k(v[s].expr, w.subrange(0, i)));
        assert(rigid_seg(u, a + 1, v, s + 1, n - 1)) by {
            assert forall|j: int| 0 <= j < n - 1 implies range_in_range((#[trigger] u[a + 1 + j]).expr, v[s + 1 + j].expr) by {
                assert(range_in_range(u[a + (j + 1)].expr, v[s + (j + 1)].expr));
            }
        }
        lemma_seg_rigid(u, a + 1, v, s + 1, n - 1, w.subrange(i, w.len() as int));
        assert(wit(i));
    }
}

// a single Sigma* term accepts every word over the alphabet
pub proof fn lemma_seg_full(v: Seq<RegLan>, s: int, w: Seq<u32>)
    requires 0 <= s < v.len(), word_ok(w),
        v[s].expr matches BaseRegLan::Loop(r, range) && range.0 == 0 && range.1.is_none() && (r.expr matches BaseRegLan::Range(c) && c.start == 0 && c.end == MAX_CHAR),
    ensures cat_seg(v, s, s + 1, w),
{
    if let BaseRegLan::Loop(r, range) = v[s].expr {
        lemma_sigma_loop(r, range, w);
        assert(lang_k(v[s].expr, w));
        assert(w.subrange(0, w.len() as int) =~= w);
        assert(w.subrange(w.len() as int, w.len() as int).len() == 0);
        assert(cat_seg(v, s + 1, s + 1, w.subrange(w.len() as int, w.len() as int)));
        assert(wit(w.len() as int));
    }
}

// a match of the listed character sets at position j of u is a rigid segment against v[start..end)
pub proof fn lemma_rigid_at_seg(pattern: Seq<&CharSet>, u: Seq<RegLan>, j: int, v: Seq<RegLan>, start: int, end: int)
    requires rigid_at(pattern, u, j), 0 <= start <= end <= v.len(), sets_of(pattern, v.subrange(start, end)),
    ensures rigid_seg(u, j, v, start, end - start),
{
    let vs = v.subrange(start, end);
    assert forall|t: int| 0 <= t < end - start implies range_in_range((#[trigger] u[j + t]).expr, v[start + t].expr) by {
        assert(vs[t] == v[start + t]);
        assert(vs[t].expr == BaseRegLan::Range(*pattern[t]));
        assert(range_inside(u[j + t].expr, *pattern[t]));
    }
}

pub proof fn lemma_subrange_all_range(v: Seq<RegLan>, start: int, end: int)
    requires 0 <= start <= end <= v.len(), forall|j: int| start <= j < end ==> (#[trigger] v[j]).expr is Range,
    ensures forall|j: int| 0 <= j < end - start ==> (#[trigger] v.subrange(start, end)[j]).expr is Range,
{
    assert forall|j: int| 0 <= j < end - start implies (#[trigger] v.subrange(start, end)[j]).expr is Range by {
        assert(v.subrange(start, end)[j] == v[start + j]);
    }
}

// piecewise inclusion gives inclusion of the whole concatenations (from piece t on)
pub proof fn lemma_covered_incl(ps: Seq<BasePattern>, u: Seq<RegLan>, v: Seq<RegLan>, t: int, w: Seq<u32>)
    requires covered(ps, u, v), 0 <= t <= ps.len(),
        cat_seg(u, if t < ps.len() { ps[t].start_match as int } else { u.len() as int }, u.len() as int, w),
    ensures cat_seg(v, if t < ps.len() { ps[t].start as int } else { v.len() as int }, v.len() as int, w),
    decreases ps.len() - t,
{
    if t < ps.len() {
        let p = ps[t];
        let a = p.start_match as int;
        let b = p.end_match as int;
        lemma_seg_split(u, a, b, u.len() as int, w);
        let i = choose|i: int| #![trigger wit(i)] 0 <= i <= w.len() && wit(i) && cat_seg(u, a, b, w.subrange(0, i)) && cat_seg(u, b, u.len() as int, w.subrange(i, w.len() as int));
        assert(seg_incl(u, a, b, v, p.start as int, p.end as int));
        assert(cat_seg(v, p.start as int, p.end as int, w.subrange(0, i)));
        if t + 1 < ps.len() { assert(ps[t].end_match == ps[t + 1].start_match && ps[t].end == ps[t + 1].start); }
        lemma_covered_incl(ps, u, v, t + 1, w.subrange(i, w.len() as int));
        assert(wit(i));
        assert(seg_split(v, p.start as int, p.end as int, v.len() as int, w));
        lemma_seg_split(v, p.start as int, p.end as int, v.len() as int, w);
    }
}

// what set_flexible_regions leaves (ps1) from the rigid placement (ps0)
pub open spec fn regions_set(ps1: Seq<BasePattern>, ps0: Seq<BasePattern>, ulen: int) -> bool {
    &&& same_shape(ps1, ps0)
    &&& forall|t: int| 0 <= t < ps0.len() && ps0[t].is_rigid ==> #[trigger] ps1[t] == ps0[t]
    &&& forall|t: int| 0 <= t < ps0.len() && !ps0[t].is_rigid ==>
            (#[trigger] ps1[t]).start_match == (if t == 0 { 0 } else { ps0[t - 1].end_match })
            && ps1[t].end_match == (if t == ps0.len() - 1 { ulen as usize } else { ps0[t + 1].start_match })
}

// bounds of the region of every pattern (needed to slice u)
pub proof fn lemma_region_bounds(ps0: Seq<BasePattern>, ps1: Seq<BasePattern>, u: Seq<RegLan>, v: Seq<RegLan>, t: int)
    requires ps0.len() > 0, alternating(ps0), rigids_ok(ps0, u, v), !ps0[0].is_rigid, !ps0[ps0.len() - 1].is_rigid,
        regions_set(ps1, ps0, u.len() as int), 0 <= t < ps0.len(), u.len() <= usize::MAX,
    ensures ps1[t].start_match <= ps1[t].end_match <= u.len(),
        t == 0 ==> ps1[t].start_match == 0,
        t == ps0.len() - 1 ==> ps1[t].end_match == u.len(),
        t < ps0.len() - 1 ==> ps1[t].end_match == ps1[t + 1].start_match,
{
    let n = ps0.len() as int;
    if ps0[t].is_rigid {
        assert(rigid_placed(ps0[t], u, v));
        assert(0 < t < n - 1);
        assert(ps0[t].is_rigid != ps0[t + 1].is_rigid);
    } else {
        if t > 0 { assert(ps0[t - 1].is_rigid != ps0[t].is_rigid); assert(rigid_placed(ps0[t - 1], u, v)); }
        if t < n - 1 { assert(ps0[t].is_rigid != ps0[t + 1].is_rigid); assert(rigid_placed(ps0[t + 1], u, v)); }
        if 0 < t < n - 1 { assert(ps0[t - 1].end_match <= ps0[t + 1].start_match); }
    }
}

// all flexible regions matched: the patterns cover u and v piece by piece
pub proof fn lemma_build_covered(ps0: Seq<BasePattern>, ps1: Seq<BasePattern>, u: Seq<RegLan>, v: Seq<RegLan>)
    requires ps0.len() > 0, all_bp_ok(ps0, v), alternating(ps0), contiguous(ps0, v), rigids_ok(ps0, u, v),
        !ps0[0].is_rigid, !ps0[ps0.len() - 1].is_rigid, regions_set(ps1, ps0, u.len() as int), u.len() <= usize::MAX,
        forall|t: int| 0 <= t < ps1.len() && !(#[trigger] ps1[t]).is_rigid ==> seg_incl(u, ps1[t].start_match as int, ps1[t].end_match as int, v, ps1[t].start as int, ps1[t].end as int),
    ensures covered(ps1, u, v),
{
    let n = ps0.len() as int;
    lemma_region_bounds(ps0, ps1, u, v, 0);
    lemma_region_bounds(ps0, ps1, u, v, n - 1);
    assert forall|t: int| 0 <= t < n - 1 implies (#[trigger] ps1[t]).end == ps1[t + 1].start && ps1[t].end_match == ps1[t + 1].start_match by {
        lemma_region_bounds(ps0, ps1, u, v, t);
        assert(ps0[t].end == ps0[t + 1].start);
    }
    assert forall|t: int| 0 <= t < n implies (#[trigger] ps1[t]).start_match <= ps1[t].end_match && ps1[t].end_match <= u.len() && ps1[t].start < ps1[t].end && ps1[t].end <= v.len()
        && seg_incl(u, ps1[t].start_match as int, ps1[t].end_match as int, v, ps1[t].start as int, ps1[t].end as int) by {
        lemma_region_bounds(ps0, ps1, u, v, t);
        assert(bp_ok(ps0[t], v));
        if ps1[t].is_rigid {
            assert(ps1[t] == ps0[t]);
            assert(rigid_placed(ps0[t], u, v));
            let p = ps1[t];
            assert forall|w: Seq<u32>| #[trigger] cat_seg(u, p.start_match as int, p.end_match as int, w) implies cat_seg(v, p.start as int, p.end as int, w) by {
                lemma_seg_rigid(u, p.start_match as int, v, p.start as int, p.end - p.start, w);
            }
        }
    }
}

// the static context of match_flexible_patterns, bundled (opaque: the loop only needs the facts below)
#[verifier::opaque]
pub open spec fn mfp_ctx(ps0: Seq<BasePattern>, ps1: Seq<BasePattern>, u: Seq<RegLan>, v: Seq<RegLan>) -> bool {
    ps0.len() > 0 && all_bp_ok(ps0, v) && alternating(ps0) && contiguous(ps0, v) && rigids_ok(ps0, u, v)
        && !ps0[0].is_rigid && !ps0[ps0.len() - 1].is_rigid && regions_set(ps1, ps0, u.len() as int) && u.len() <= usize::MAX
}

pub proof fn lemma_mfp_at(ps0: Seq<BasePattern>, ps1: Seq<BasePattern>, u: Seq<RegLan>, v: Seq<RegLan>, t: int)
    requires mfp_ctx(ps0, ps1, u, v), 0 <= t < ps1.len(),
    ensures ps1.len() == ps0.len(), ps1[t].start_match <= ps1[t].end_match <= u.len(), ps1[t].start < ps1[t].end <= v.len(),
{
    reveal(mfp_ctx);
    lemma_region_bounds(ps0, ps1, u, v, t);
    assert(bp_ok(ps0[t], v));
}

pub proof fn lemma_mfp_covered(ps0: Seq<BasePattern>, ps1: Seq<BasePattern>, u: Seq<RegLan>, v: Seq<RegLan>)
    requires mfp_ctx(ps0, ps1, u, v),
        forall|t: int| 0 <= t < ps1.len() && !(#[trigger] ps1[t]).is_rigid ==> seg_incl(u, ps1[t].start_match as int, ps1[t].end_match as int, v, ps1[t].start as int, ps1[t].end as int),
    ensures seg_incl(u, 0, u.len() as int, v, 0, v.len() as int),
{
    reveal(mfp_ctx);
    lemma_build_covered(ps0, ps1, u, v);
    assert forall|w: Seq<u32>| #[trigger] cat_seg(u, 0, u.len() as int, w) implies cat_seg(v, 0, v.len() as int, w) by {
        lemma_covered_incl(ps1, u, v, 0, w);
    }
}

// a flexible pattern whose slice of v is a single Sigma* includes whatever region of u it is given
pub proof fn lemma_flex_incl(u: Seq<RegLan>, a: int, b: int, v: Seq<RegLan>, s: int, e: int)
    requires 0 <= s < e <= v.len(), v.subrange(s, e).len() == 1,
        v.subrange(s, e)[0].expr matches BaseRegLan::Loop(r, range) && range.0 == 0 && range.1.is_none() && (r.expr matches BaseRegLan::Range(c) && c.start == 0 && c.end == MAX_CHAR),
    ensures seg_incl(u, a, b, v, s, e),
{
    assert(v.subrange(s, e)[0] == v[s]);
    assert(e == s + 1);
    assert forall|w: Seq<u32>| #[trigger] cat_seg(u, a, b, w) implies cat_seg(v, s, e, w) by {
        lemma_seg_word_ok(u, a, b, w);
        lemma_seg_full(v, s, w);
    }
}

// ---- concat_inclusion: stripping a rigid prefix / suffix ----
pub proof fn lemma_incl_prefix(u: Seq<RegLan>, v: Seq<RegLan>, n: int)
    requires rigid_seg(u, 0, v, 0, n), seg_incl(u, n, u.len() as int, v, n, v.len() as int),
    ensures seg_incl(u, 0, u.len() as int, v, 0, v.len() as int),
{
    assert forall|w: Seq<u32>| #[trigger] cat_seg(u, 0, u.len() as int, w) implies cat_seg(v, 0, v.len() as int, w) by {
        lemma_seg_split(u, 0, n, u.len() as int, w);
        let i = choose|i: int| #![trigger wit(i)] 0 <= i <= w.len() && wit(i) && cat_seg(u, 0, n, w.subrange(0, i)) && cat_seg(u, n, u.len() as int, w.subrange(i, w.len() as int));
        lemma_seg_rigid(u, 0, v, 0, n, w.subrange(0, i));
        assert(cat_seg(v, n, v.len() as int, w.subrange(i, w.len() as int)));
        assert(wit(i));
        assert(seg_split(v, 0, n, v.len() as int, w));
        lemma_seg_split(v, 0, n, v.len() as int, w);
    }
}

pub proof fn lemma_incl_suffix(u: Seq<RegLan>, v: Seq<RegLan>, n: int)
    requires 0 <= n <= u.len(), n <= v.len(), rigid_seg(u, u.len() - n, v, v.len() - n, n), seg_incl(u, 0, u.len() - n, v, 0, v.len() - n),
    ensures seg_incl(u, 0, u.len() as int, v, 0, v.len() as int),
{
    let a = u.len() - n;
    let s = v.len() - n;
    assert forall|w: Seq<u32>| #[trigger] cat_seg(u, 0, u.len() as int, w) implies cat_seg(v, 0, v.len() as int, w) by {
        lemma_seg_split(u, 0, a, u.len() as int, w);
        let i = choose|i: int| #![trigger wit(i)] 0 <= i <= w.len() && wit(i) && cat_seg(u, 0, a, w.subrange(0, i)) && cat_seg(u, a, u.len() as int, w.subrange(i, w.len() as int));
        let w1 = w.subrange(0, i);
        let w2 = w.subrange(i, w.len() as int);
        assert(u.len() - n + n == u.len());
        lemma_seg_rigid(u, a, v, s, n, w2);
        assert(cat_seg(v, s, s + n, w2));
        assert(s + n == v.len());
        assert(cat_seg(u, 0, a, w1));
        assert(cat_seg(v, 0, s, w1));
        assert(wit(i));
        assert(seg_split(v, 0, s, v.len() as int, w));
        lemma_seg_split(v, 0, s, v.len() as int, w);
    }
}

// inclusion between sub-slices is inclusion between the corresponding segments
pub proof fn lemma_incl_sub(u: Seq<RegLan>, a: int, b: int, v: Seq<RegLan>, s: int, e: int)
    requires 0 <= a <= b <= u.len(), 0 <= s <= e <= v.len(),
        seg_incl(u.subrange(a, b), 0, b - a, v.subrange(s, e), 0, e - s),
    ensures seg_incl(u, a, b, v, s, e),
{
    let us = u.subrange(a, b);
    let vs = v.subrange(s, e);
    assert forall|w: Seq<u32>| #[trigger] cat_seg(u, a, b, w) implies cat_seg(v, s, e, w) by {
        lemma_seg_shift(us, 0, b - a, u, a, w);
        assert(cat_seg(us, 0, b - a, w));
        lemma_seg_shift(vs, 0, e - s, v, s, w);
    }
}

// what concat_inclusion maintains about its working slices (p, u, v) relative to the original lists (u0, v0)
#[verifier::opaque]
pub open spec fn ci_ctx(p: Seq<BasePattern>, u: Seq<RegLan>, v: Seq<RegLan>, u0: Seq<RegLan>, v0: Seq<RegLan>) -> bool {
    all_bp_ok(p, v) && alternating(p) && contiguous(p, v) && (p.len() == 0 ==> v.len() == 0)
        && all_re_ok(u) && all_re_ok(v) && u.len() < usize::MAX
        && (seg_incl(u, 0, u.len() as int, v, 0, v.len() as int) ==> seg_incl(u0, 0, u0.len() as int, v0, 0, v0.len() as int))
}

pub proof fn lemma_ci_init(p: Seq<BasePattern>, u: Seq<RegLan>, v: Seq<RegLan>)
    requires bp_cover(p, v), all_re_ok(u), all_re_ok(v), u.len() < usize::MAX,
    ensures ci_ctx(p, u, v, u, v),
{
    reveal(ci_ctx);
    assert forall|t: int| 0 <= t < p.len() implies bp_ok(#[trigger] p[t], v) by {}
}

// facts a caller may use without opening ci_ctx
pub proof fn lemma_ci_facts(p: Seq<BasePattern>, u: Seq<RegLan>, v: Seq<RegLan>, u0: Seq<RegLan>, v0: Seq<RegLan>)
    requires ci_ctx(p, u, v, u0, v0),
    ensures all_bp_ok(p, v), alternating(p), contiguous(p, v), p.len() == 0 ==> v.len() == 0, all_re_ok(u), all_re_ok(v), u.len() < usize::MAX,
        seg_incl(u, 0, u.len() as int, v, 0, v.len() as int) ==> seg_incl(u0, 0, u0.len() as int, v0, 0, v0.len() as int),
{
    reveal(ci_ctx);
}

pub proof fn lemma_ci_strip_prefix(p: Seq<BasePattern>, u: Seq<RegLan>, v: Seq<RegLan>, u0: Seq<RegLan>, v0: Seq<RegLan>, p2: Seq<BasePattern>, n: int)
    requires ci_ctx(p, u, v, u0, v0), p.len() > 0, p[0].is_rigid, n == p[0].end - p[0].start, n <= u.len(),
        rigid_seg(u, 0, v, p[0].start as int, n),
        p2.len() == p.len() - 1,
        forall|t: int| 0 <= t < p2.len() ==> (#[trigger] p2[t]).start == p[t + 1].start - n && p2[t].end == p[t + 1].end - n && p2[t].is_rigid == p[t + 1].is_rigid,
    ensures ci_ctx(p2, u.subrange(n, u.len() as int), v.subrange(n, v.len() as int), u0, v0),
        p2.len() > 0 ==> !p2[0].is_rigid,
{
    reveal(ci_ctx);
    let u2 = u.subrange(n, u.len() as int);
    let v2 = v.subrange(n, v.len() as int);
    assert(bp_ok(p[0], v));
    assert(p[0].start == 0);
    if p.len() > 1 { assert(p[0].end == p[1].start && p[0].is_rigid != p[1].is_rigid); }
    assert forall|t: int| 0 <= t < p2.len() implies bp_ok(#[trigger] p2[t], v2) by {
        assert(bp_ok(p[t + 1], v));
        assert(p[t + 1].start >= n) by {
            // starts are increasing along the contiguous patterns
            lemma_starts_increase(p, 0, t + 1);
        }
        if p2[t].is_rigid {
            assert forall|j: int| p2[t].start <= j < p2[t].end implies (#[trigger] v2[j]).expr is Range by { assert(v2[j] == v[j + n]); }
        }
    }
    assert(alternating(p2)) by {
        assert forall|t: int| 0 <= t < p2.len() - 1 implies (#[trigger] p2[t]).is_rigid != p2[t + 1].is_rigid by { assert(p[t + 1].is_rigid != p[t + 2].is_rigid); }
    }
    assert(contiguous(p2, v2)) by {
        assert forall|t: int| 0 <= t < p2.len() - 1 implies (#[trigger] p2[t]).end == p2[t + 1].start by { assert(p[t + 1].end == p[t + 2].start); }
        if p2.len() > 0 { assert(p2[p2.len() - 1].end == p[p.len() - 1].end - n); }
    }
    assert(all_re_ok(u2)) by { assert forall|j: int| 0 <= j < u2.len() implies re_ok(*#[trigger] u2[j]) by { assert(u2[j] == u[j + n]); } }
    assert(all_re_ok(v2)) by { assert forall|j: int| 0 <= j < v2.len() implies re_ok(*#[trigger] v2[j]) by { assert(v2[j] == v[j + n]); } }
    if seg_incl(u2, 0, u2.len() as int, v2, 0, v2.len() as int) {
        lemma_incl_sub(u, n, u.len() as int, v, n, v.len() as int);
        lemma_incl_prefix(u, v, n);
    }
}

// along contiguous patterns the start positions increase
pub proof fn lemma_starts_increase(p: Seq<BasePattern>, a: int, b: int)
    requires 0 <= a <= b < p.len(),
        forall|t: int| 0 <= t < p.len() ==> (#[trigger] p[t]).start < p[t].end,
        forall|t: int| 0 <= t < p.len() - 1 ==> (#[trigger] p[t]).end == p[t + 1].start,
    ensures a < b ==> p[a].end <= p[b].start, p[a].start <= p[b].start,
    decreases b - a,
{
    if a < b {
        lemma_starts_increase(p, a + 1, b);
        assert(p[a].end == p[a + 1].start);
    }
}

pub proof fn lemma_ci_strip_suffix(p: Seq<BasePattern>, u: Seq<RegLan>, v: Seq<RegLan>, u0: Seq<RegLan>, v0: Seq<RegLan>, n: int)
    requires ci_ctx(p, u, v, u0, v0), p.len() > 0, p[p.len() - 1].is_rigid, n == p[p.len() - 1].end - p[p.len() - 1].start, n <= u.len(),
        rigid_seg(u, u.len() - n, v, p[p.len() - 1].start as int, n),
    ensures ci_ctx(p.subrange(0, p.len() - 1), u.subrange(0, u.len() - n), v.subrange(0, v.len() - n), u0, v0),
        p.len() > 1 ==> !p[p.len() - 2].is_rigid,
{
    reveal(ci_ctx);
    let m = p.len() as int;
    let p2 = p.subrange(0, m - 1);
    let u2 = u.subrange(0, u.len() - n);
    let v2 = v.subrange(0, v.len() - n);
    assert(bp_ok(p[m - 1], v));
    assert(p[m - 1].end == v.len());
    if m > 1 { assert(p[m - 2].end == p[m - 1].start && p[m - 2].is_rigid != p[m - 1].is_rigid); }
    assert forall|t: int| 0 <= t < p2.len() implies bp_ok(#[trigger] p2[t], v2) by {
        assert(p2[t] == p[t]);
        assert(bp_ok(p[t], v));
        lemma_starts_increase(p, t, m - 1);
        if p2[t].is_rigid {
            assert forall|j: int| p2[t].start <= j < p2[t].end implies (#[trigger] v2[j]).expr is Range by { assert(v2[j] == v[j]); }
        }
    }
    assert(alternating(p2)) by {
        assert forall|t: int| 0 <= t < p2.len() - 1 implies (#[trigger] p2[t]).is_rigid != p2[t + 1].is_rigid by { assert(p[t].is_rigid != p[t + 1].is_rigid); }
    }
    assert(contiguous(p2, v2)) by {
        assert forall|t: int| 0 <= t < p2.len() - 1 implies (#[trigger] p2[t]).end == p2[t + 1].start by { assert(p[t].end == p[t + 1].start); }
        if p2.len() > 0 { assert(p2[0] == p[0]); assert(p2[p2.len() - 1] == p[m - 2]); }
    }
    if p2.len() == 0 { assert(p[0].start == 0); }
    assert(all_re_ok(u2)) by { assert forall|j: int| 0 <= j < u2.len() implies re_ok(*#[trigger] u2[j]) by { assert(u2[j] == u[j]); } }
    assert(all_re_ok(v2)) by { assert forall|j: int| 0 <= j < v2.len() implies re_ok(*#[trigger] v2[j]) by { assert(v2[j] == v[j]); } }
    if seg_incl(u2, 0, u2.len() as int, v2, 0, v2.len() as int) {
        lemma_incl_sub(u, 0, u.len() - n, v, 0, v.len() - n);
        lemma_incl_suffix(u, v, n);
    }
}

// patterns with the same positions satisfy the same structural predicates
pub proof fn lemma_shape_keeps(p2: Seq<BasePattern>, p1: Seq<BasePattern>, v: Seq<RegLan>)
    requires same_shape(p2, p1), all_bp_ok(p1, v), alternating(p1), contiguous(p1, v),
    ensures all_bp_ok(p2, v), alternating(p2), contiguous(p2, v),
{
    assert forall|t: int| 0 <= t < p2.len() implies bp_ok(#[trigger] p2[t], v) by { assert(bp_ok(p1[t], v)); }
    assert forall|t: int| 0 <= t < p2.len() - 1 implies (#[trigger] p2[t]).is_rigid != p2[t + 1].is_rigid by { assert(p1[t].is_rigid != p1[t + 1].is_rigid); }
    assert forall|t: int| 0 <= t < p2.len() - 1 implies (#[trigger] p2[t]).end == p2[t + 1].start by { assert(p1[t].end == p1[t + 1].start); }
}

// second attempt of concat_inclusion: the patterns moved by the first attempt still have the same positions
pub proof fn lemma_shape_keeps_len(p2: Seq<BasePattern>, p1: Seq<BasePattern>, v: Seq<RegLan>)
    requires same_shape(p2, p1) || p2 == p1, all_bp_ok(p1, v), alternating(p1), contiguous(p1, v),
    ensures all_bp_ok(p2, v), alternating(p2), contiguous(p2, v),
{
    if p2 != p1 { lemma_shape_keeps(p2, p1, v); }
}


// ---- opaque bundles used by concat_inclusion (the callee contracts speak in these terms) ----
// the working patterns are a well-formed alternating cover of v whose first and last members are flexible
#[verifier::opaque]
pub open spec fn pat_ok(ps: Seq<BasePattern>, u: Seq<RegLan>, v: Seq<RegLan>) -> bool {
    all_bp_ok(ps, v) && alternating(ps) && contiguous(ps, v) && all_re_ok(u) && all_re_ok(v) && u.len() < usize::MAX
        && (ps.len() == 0 ==> v.len() == 0)
        && (ps.len() > 0 ==> !ps[0].is_rigid && !ps[ps.len() - 1].is_rigid)
}

#[verifier::opaque]
pub open spec fn placed(ps: Seq<BasePattern>, u: Seq<RegLan>, v: Seq<RegLan>) -> bool {
    rigids_ok(ps, u, v)
}

pub proof fn lemma_pat_ok_shape(p2: Seq<BasePattern>, p1: Seq<BasePattern>, u: Seq<RegLan>, v: Seq<RegLan>)
    requires pat_ok(p1, u, v), same_shape(p2, p1),
    ensures pat_ok(p2, u, v),
{
    reveal(pat_ok);
    lemma_shape_keeps(p2, p1, v);
}

pub proof fn lemma_ci_ready(p: Seq<BasePattern>, u: Seq<RegLan>, v: Seq<RegLan>, u0: Seq<RegLan>, v0: Seq<RegLan>)
    requires ci_ctx(p, u, v, u0, v0), p.len() > 0 ==> !p[0].is_rigid && !p[p.len() - 1].is_rigid,
    ensures pat_ok(p, u, v),
{
    reveal(ci_ctx);
    reveal(pat_ok);
}

pub proof fn lemma_ci_done(p: Seq<BasePattern>, u: Seq<RegLan>, v: Seq<RegLan>, u0: Seq<RegLan>, v0: Seq<RegLan>)
    requires ci_ctx(p, u, v, u0, v0), seg_incl(u, 0, u.len() as int, v, 0, v.len() as int),
    ensures seg_incl(u0, 0, u0.len() as int, v0, 0, v0.len() as int),
{
    reveal(ci_ctx);
}

// targeted facts from ci_ctx (the function body never opens it)
pub proof fn lemma_ci_first(p: Seq<BasePattern>, u: Seq<RegLan>, v: Seq<RegLan>, u0: Seq<RegLan>, v0: Seq<RegLan>)
    requires ci_ctx(p, u, v, u0, v0), p.len() > 0,
    ensures bp_ok(p[0], v), bp_ok(p[p.len() - 1], v), all_re_ok(u), u.len() < usize::MAX, p[0].start == 0,
        forall|t: int| 1 <= t < p.len() ==> (#[trigger] p[t]).end > p[t].start && p[t].start >= p[0].end,
{
    reveal(ci_ctx);
    assert forall|t: int| 1 <= t < p.len() implies (#[trigger] p[t]).end > p[t].start && p[t].start >= p[0].end by {
        assert(bp_ok(p[t], v));
        lemma_starts_increase(p, 0, t);
    }
}
