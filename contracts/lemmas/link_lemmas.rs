// The count link of C19: the set explored by compile_with_bound / try_compile / compile is, term by term,
// the set iter_derivatives yields, whichever of the two ran first on the manager.

// an exhausted DerivativeIterator holds the set of terms generated from e
pub proof fn lemma_iter_exhausted(m: ReManager, q: BfsQueue<RegLan>, e: RegLan)
    requires explored_ok(m, q), q.queue@.len() == 0, q.set@.contains(e), all_treach(m, q.set@, e),
    ensures term_closure(m, e, q.set@),
{
    assert forall|x: RegLan| #[trigger] q.set@.contains(x) implies tclosed_at(m, q.set@, x) by {
        assert(q_done(q, x));
    }
}

// Some(a): the automaton has one state per term the iterator yields
pub proof fn theorem_states_equal_yielded(m_it: ReManager, q_it: BfsQueue<RegLan>, m_c: ReManager, e: RegLan, s_c: Set<RegLan>)
    requires
        explored_ok(m_it, q_it), q_it.queue@.len() == 0, q_it.set@.contains(e), all_treach(m_it, q_it.set@, e), // the iterator ran to its end on manager state m_it
        term_closure(m_c, e, s_c), // the closure compile_with_bound reports on manager state m_c
        grows(m_c, m_it) || grows(m_it, m_c), // same manager, either order
    ensures s_c == q_it.set@,
{
    lemma_iter_exhausted(m_it, q_it, e);
    if grows(m_c, m_it) {
        lemma_closure_grows(m_c, m_it, e, q_it.set@);
        lemma_closure_unique(m_c, e, s_c, q_it.set@);
    } else {
        lemma_closure_grows(m_it, m_c, e, s_c);
        lemma_closure_unique(m_it, e, s_c, q_it.set@);
    }
}

// None: the iterator yields more terms than the bound
pub proof fn theorem_none_means_more_yielded(m_it: ReManager, q_it: BfsQueue<RegLan>, m_c: ReManager, e: RegLan, t: Set<RegLan>, n: nat)
    requires
        explored_ok(m_it, q_it), q_it.queue@.len() == 0, q_it.set@.contains(e), all_treach(m_it, q_it.set@, e), q_it.set@.finite(),
        all_treach(m_c, t, e), t.finite(), t.len() > n, // the witness compile_with_bound reports with None
        grows(m_c, m_it) || grows(m_it, m_c),
    ensures q_it.set@.len() > n,
{
    lemma_iter_exhausted(m_it, q_it, e);
    let s = q_it.set@;
    if grows(m_c, m_it) {
        lemma_closure_grows(m_c, m_it, e, s);
        lemma_generated_subset(m_c, e, s, t);
    } else {
        assert forall|x: RegLan| #[trigger] t.contains(x) implies treach(m_it, e, x) by { lemma_treach_grows(m_it, m_c, e, x); }
        lemma_generated_subset(m_it, e, s, t);
    }
    vstd::set_lib::lemma_len_subset(t, s);
}
