// every valid class has a member
pub proof fn lemma_class_nonempty(e: RegLan, cid: ClassId) -> (c: u32)
    requires re_ok(*e), cp_valid(*e.deriv_class, cid),
    ensures in_class(e, c, cid),
{
    match cid {
        ClassId::Interval(i) => {
            assert(cs_wf(e.deriv_class.list@[i as int]));
            e.deriv_class.list@[i as int].start
        }
        ClassId::Complement => {
            let x = choose|x: int| 0 <= x <= MAX_CHAR && !cl_in(e.deriv_class.list@, x);
            x as u32
        }
    }
}

// every character of the alphabet belongs to a valid class
pub proof fn lemma_class_total(e: RegLan, c: u32) -> (cid: ClassId)
    requires re_ok(*e), c <= MAX_CHAR,
    ensures in_class(e, c, cid), cp_valid(*e.deriv_class, cid),
{
    let l = e.deriv_class.list@;
    if cl_in(l, c as int) {
        let i = choose|i: int| 0 <= i < l.len() && cs_has(#[trigger] l[i], c as int);
        let cid = ClassId::Interval(i as usize);
        lemma_sorted_len_bound(l);
        assert((i as usize) as int == i);
        assert(cp_is_class(*e.deriv_class, c as int, cid));
        cid
    } else {
        assert(0 <= (c as int) <= MAX_CHAR && !cl_in(l, c as int));
        assert(cp_valid(*e.deriv_class, ClassId::Complement));
        ClassId::Complement
    }
}

pub proof fn lemma_reach_refl(e: RegLan)
    ensures reach(e, e),
{
    lemma_quot_by_refl(e.expr);
}

pub proof fn lemma_reach_step(e0: RegLan, r: RegLan, d: RegLan, c: u32)
    requires reach(e0, r), is_deriv(d, r, c),
    ensures reach(e0, d),
{
    let u = choose|u: Seq<u32>| #[trigger] quot_by(r.expr, e0.expr, u);
    lemma_quot_by_step(d, r, e0.expr, u, c);
}

// a nullable iterated derivative witnesses a member of the language
pub proof fn lemma_reach_nullable(e0: RegLan, x: RegLan) -> (u: Seq<u32>)
    requires reach(e0, x), lang_k(x.expr, eps()),
    ensures lang_k(e0.expr, u),
{
    let u = choose|u: Seq<u32>| #[trigger] quot_by(x.expr, e0.expr, u);
    reveal(quot_by);
    assert(qb_at(x.expr, e0.expr, u, eps()));
    assert(u + eps() =~= u);
    u
}

pub proof fn lemma_closed_mono(s: Set<RegLan>, s2: Set<RegLan>, x: RegLan)
    requires closed_at(s, x), forall|y: RegLan| s.contains(y) ==> s2.contains(y),
    ensures closed_at(s2, x),
{
    assert forall|c: u32| c <= MAX_CHAR implies #[trigger] has_deriv_in(s2, x, c) by {
        assert(has_deriv_in(s, x, c));
        let y = choose|y: RegLan| s.contains(y) && #[trigger] is_deriv(y, x, c);
        assert(s2.contains(y));
    }
}

// a set closed under derivatives whose members all reject the empty word contains only empty languages
pub proof fn lemma_closed_empty(s: Set<RegLan>, x: RegLan, w: Seq<u32>)
    requires
        s.contains(x),
        forall|y: RegLan| #[trigger] s.contains(y) ==> closed_at(s, y) && !lang_k(y.expr, eps()),
    ensures !lang_k(x.expr, w),
    decreases w.len(),
{
    if w.len() == 0 {
        assert(w =~= eps());
    } else if lang_k(x.expr, w) {
        lemma_lang_word_ok(x.expr, w);
        let c = w[0];
        let w1 = w.subrange(1, w.len() as int);
        assert(seq![c] + w1 =~= w);
        assert(has_deriv_in(s, x, c));
        let y = choose|y: RegLan| s.contains(y) && #[trigger] is_deriv(y, x, c);
        assert(lang_k(y.expr, w1) == quot(x.expr, c, w1));
        lemma_closed_empty(s, y, w1);
    }
}
