// chain lengths are unique
pub proof fn lemma_chain_unique<T, L>(m: Map<T, Edge<T, L>>, e: Edge<T, L>, n1: nat, n2: nat)
    requires chain_len(m, e, n1), chain_len(m, e, n2),
    ensures n1 == n2,
    decreases n1,
{
    match e {
        Edge::Empty => {},
        Edge::Pred(l, p) => { lemma_chain_unique(m, m[p], (n1 - 1) as nat, (n2 - 1) as nat); },
    }
}

// chains survive the insertion of a new key
pub proof fn lemma_chain_insert<T, L>(m: Map<T, Edge<T, L>>, k: T, v: Edge<T, L>, e: Edge<T, L>, n: nat)
    requires chain_len(m, e, n), !m.contains_key(k),
    ensures chain_len(m.insert(k, v), e, n), chain_path(m.insert(k, v), e, n) == chain_path(m, e, n),
    decreases n,
{
    match e {
        Edge::Empty => {},
        Edge::Pred(l, p) => {
            assert(p != k);
            lemma_chain_insert(m, k, v, m[p], (n - 1) as nat);
        },
    }
}

// one more edge followed: the path so far plus the reversed collected pairs is unchanged
pub proof fn lemma_path_step<T, L>(m: Map<T, Edge<T, L>>, l: L, p: T, n: nat, acc: Seq<(T, L)>)
    requires n > 0,
    ensures chain_path(m, Edge::Pred(l, p), n) + acc.reverse() == chain_path(m, m[p], (n - 1) as nat) + acc.push((p, l)).reverse(),
{
    let a2 = acc.push((p, l));
    let lhs = chain_path(m, Edge::Pred(l, p), n) + acc.reverse();
    let rhs = chain_path(m, m[p], (n - 1) as nat) + a2.reverse();
    let base = chain_path(m, m[p], (n - 1) as nat);
    assert(chain_path(m, Edge::Pred(l, p), n) == base.push((p, l)));
    assert(a2.reverse().len() == acc.len() + 1);
    assert(a2.reverse()[0] == (p, l));
    assert forall|i: int| 0 <= i < acc.len() implies a2.reverse()[i + 1] == acc.reverse()[i] by {}
    assert(lhs =~= rhs);
}

// the same for the labels alone
pub proof fn lemma_labels_step<T, L>(m: Map<T, Edge<T, L>>, l: L, p: T, n: nat, acc: Seq<L>)
    requires n > 0,
    ensures chain_labels(m, Edge::Pred(l, p), n) + acc.reverse() == chain_labels(m, m[p], (n - 1) as nat) + acc.push(l).reverse(),
{
    let a2 = acc.push(l);
    let lhs = chain_labels(m, Edge::Pred(l, p), n) + acc.reverse();
    let rhs = chain_labels(m, m[p], (n - 1) as nat) + a2.reverse();
    let base = chain_labels(m, m[p], (n - 1) as nat);
    assert(chain_labels(m, Edge::Pred(l, p), n) == base.push(l));
    assert(a2.reverse().len() == acc.len() + 1);
    assert(a2.reverse()[0] == l);
    assert forall|i: int| 0 <= i < acc.len() implies a2.reverse()[i + 1] == acc.reverse()[i] by {}
    assert(lhs =~= rhs);
}

pub proof fn lemma_reverse_twice<A>(s: Seq<A>)
    ensures s.reverse().reverse() == s,
{
    assert(s.reverse().reverse() =~= s);
}
