// L5 (compilation): the builder state that compile_with_bound maintains

// id of term x in the builder (keys are the terms' nodes)
pub open spec fn kid(b: AutomatonBuilder<BaseRegLan>, x: RegLan) -> usize {
    b.id_map@[x.expr]
}

// the state of x sends c to the state of a member of s that is the derivative of x for c
pub open spec fn maps_to_deriv(b: AutomatonBuilder<BaseRegLan>, s: Set<RegLan>, x: RegLan, c: u32) -> bool {
    exists|y: RegLan| s.contains(y) && #[trigger] is_deriv(y, x, c)
        && tr_maps(b.states@[kid(b, x) as int].transitions@, b.states@[kid(b, x) as int].default_successor, c as int, kid(b, y) as int)
}

// the state of a fully processed term x implements the derivatives of x
pub open spec fn st_done(b: AutomatonBuilder<BaseRegLan>, s: Set<RegLan>, x: RegLan) -> bool {
    &&& b.states@[kid(b, x) as int].is_final == lang_k(x.expr, eps())
    &&& sic_acceptable(b.states@[kid(b, x) as int])
    &&& forall|c: u32| c <= MAX_CHAR ==> #[trigger] maps_to_deriv(b, s, x, c)
}

// loop invariant of compile_with_bound (between two pops)
pub open spec fn cw_inv(m: ReManager, qu: BfsQueue<RegLan>, b: AutomatonBuilder<BaseRegLan>) -> bool {
    &&& mgr_wf2(m)
    &&& q_wf(qu)
    &&& bld_wf(b)
    &&& qu.set@.finite()
    &&& b.size == qu.set@.len()
    &&& forall|x: RegLan| #[trigger] qu.set@.contains(x) ==> owned(m, x) && b.id_map@.contains_key(x.expr)
    &&& forall|x: RegLan| #[trigger] q_done(qu, x) ==> st_done(b, qu.set@, x)
    &&& forall|x: RegLan| #[trigger] qu.queue@.contains(x) ==> sic_fresh(b.states@[kid(b, x) as int])
}

// every key of b1 keeps its id in b2
pub open spec fn ids_kept(b2: AutomatonBuilder<BaseRegLan>, b1: AutomatonBuilder<BaseRegLan>) -> bool {
    forall|k: BaseRegLan| #[trigger] b1.id_map@.contains_key(k) ==> b2.id_map@.contains_key(k) && b2.id_map@[k] == b1.id_map@[k]
}

// the automaton a implements, state by state, what the builder b specified
pub open spec fn built_from(a: Automaton, b: AutomatonBuilder<BaseRegLan>) -> bool {
    &&& dfa_wf(a)
    &&& a.states@.len() == b.states@.len()
    &&& forall|q: int| 0 <= q < b.states@.len() ==> state_matches(#[trigger] a.states@[q], b.states@[q])
}

// y is the derivative of e for every character of the set cs
pub open spec fn range_deriv(y: RegLan, e: RegLan, cs: CharSet) -> bool {
    forall|c: u32| #![trigger is_deriv(y, e, c)] cs_has(cs, c as int) && c <= MAX_CHAR ==> is_deriv(y, e, c)
}

// transition k of the state of e goes to the state of a member of s that is the derivative for its label
pub open spec fn tr_to_deriv(b: AutomatonBuilder<BaseRegLan>, s: Set<RegLan>, e: RegLan, k: int) -> bool {
    exists|y: RegLan| s.contains(y) && b.id_map@.contains_key(y.expr) && kid(b, y) == b.states@[kid(b, e) as int].transitions@[k].1
        && #[trigger] range_deriv(y, e, b.states@[kid(b, e) as int].transitions@[k].0)
}

// the first idx transitions of the state of e are its first idx derivative classes
pub open spec fn trans_ok(b: AutomatonBuilder<BaseRegLan>, s: Set<RegLan>, e: RegLan, idx: int) -> bool {
    let q = b.states@[kid(b, e) as int];
    &&& q.transitions@.len() == idx
    &&& forall|k: int| 0 <= k < idx ==> (#[trigger] q.transitions@[k]).0 == e.deriv_class.list@[k] && tr_to_deriv(b, s, e, k)
}

// the state of the term being expanded after its first idx derivative classes
pub open spec fn cur_partial(b: AutomatonBuilder<BaseRegLan>, s: Set<RegLan>, e: RegLan, idx: int) -> bool {
    let q = b.states@[kid(b, e) as int];
    !q.is_final && q.default_successor.is_none() && trans_ok(b, s, e, idx)
}

// the default successor of the state of e is the derivative for the complementary class (if that class is non-empty)
pub open spec fn default_ok(b: AutomatonBuilder<BaseRegLan>, s: Set<RegLan>, e: RegLan) -> bool {
    let q = b.states@[kid(b, e) as int];
    if cp_valid(*e.deriv_class, ClassId::Complement) {
        exists|y: RegLan| s.contains(y) && b.id_map@.contains_key(y.expr) && q.default_successor == Some(kid(b, y)) && #[trigger] is_class_deriv(y, e, ClassId::Complement)
    } else {
        q.default_successor.is_none()
    }
}

// everything compile_with_bound knows about the terms other than e, the one being expanded
pub open spec fn cw_frame(m: ReManager, qu: BfsQueue<RegLan>, b: AutomatonBuilder<BaseRegLan>, e: RegLan) -> bool {
    &&& mgr_wf2(m)
    &&& q_wf(qu)
    &&& bld_wf(b)
    &&& qu.set@.finite()
    &&& b.size == qu.set@.len()
    &&& qu.set@.contains(e) && !qu.queue@.contains(e)
    &&& forall|x: RegLan| #[trigger] qu.set@.contains(x) ==> owned(m, x) && b.id_map@.contains_key(x.expr)
    &&& forall|k: BaseRegLan| #[trigger] b.id_map@.contains_key(k) ==> key_has_term(qu.set@, k)
    &&& forall|x: RegLan| #[trigger] q_done(qu, x) && x != e ==> st_done(b, qu.set@, x)
    &&& forall|x: RegLan| #[trigger] qu.queue@.contains(x) ==> sic_fresh(b.states@[kid(b, x) as int])
}

pub open spec fn key_has_term(s: Set<RegLan>, k: BaseRegLan) -> bool {
    exists|x: RegLan| s.contains(x) && #[trigger] x.expr == k
}

// cw_inv plus: every key belongs to a seen term
pub open spec fn cw_inv2(m: ReManager, qu: BfsQueue<RegLan>, b: AutomatonBuilder<BaseRegLan>) -> bool {
    cw_inv(m, qu, b) && (forall|k: BaseRegLan| #[trigger] b.id_map@.contains_key(k) ==> key_has_term(qu.set@, k))
}

// the queue after push(d)
pub open spec fn pushed(qu2: BfsQueue<RegLan>, qu1: BfsQueue<RegLan>, d: RegLan) -> bool {
    if qu1.set@.contains(d) { qu2.set@ == qu1.set@ && qu2.queue@ == qu1.queue@ }
    else { qu2.set@ == qu1.set@.insert(d) && qu2.queue@ == qu1.queue@.push(d) }
}

// the builder after an operation on the state of e that may allocate the key of d
pub open spec fn bld_stepped(b2: AutomatonBuilder<BaseRegLan>, b1: AutomatonBuilder<BaseRegLan>, e: RegLan, d: RegLan) -> bool {
    &&& bld_wf(b2)
    &&& b2.id_map@ == map_after(b1.id_map@, b1.size, d.expr)
    &&& b2.size == size_after(b1.id_map@, b1.size, d.expr)
    &&& others_kept(b2, b1, kid(b1, e))
}

// s is a finite set of iterated derivatives of e that contains e and is closed under derivatives
pub open spec fn deriv_closure(s: Set<RegLan>, e: RegLan) -> bool {
    &&& s.finite()
    &&& s.contains(e)
    &&& all_reach(s, e)
    &&& forall|x: RegLan| #[trigger] s.contains(x) ==> closed_at(s, x)
}

// ---- term-level view of the exploration (which terms, not only which languages) ----

// the recorded derivatives of e for its first k classes (in ClassIdIterator order) are in s
pub open spec fn tpartial(m: ReManager, s: Set<RegLan>, e: RegLan, k: int) -> bool {
    forall|cid: ClassId| cp_valid(dclass(e), cid) && cid_rank(dclass(e), cid) < k ==> #[trigger] has_tderiv_in(m, s, e, cid)
}

// between two pops: every seen term is generated from e0, every popped term has its recorded derivatives in the set
pub open spec fn tcw_inv(m: ReManager, qu: BfsQueue<RegLan>, e0: RegLan) -> bool {
    &&& all_treach(m, qu.set@, e0)
    &&& forall|x: RegLan| #[trigger] q_done(qu, x) ==> tclosed_at(m, qu.set@, x)
}

// while e is being expanded
pub open spec fn tcw_frame(m: ReManager, qu: BfsQueue<RegLan>, e0: RegLan, e: RegLan) -> bool {
    &&& all_treach(m, qu.set@, e0)
    &&& qu.set@.contains(e)
    &&& forall|x: RegLan| #[trigger] q_done(qu, x) && x != e ==> tclosed_at(m, qu.set@, x)
}
