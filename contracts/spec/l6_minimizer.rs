// L6 (minimization): Hopcroft's algorithm over an abstract complete DFA
//   states [0, n), letters [0, m), transition function d, final-state predicate fin

pub struct MzAut {
    pub n: nat,
    pub m: nat,
    pub d: spec_fn(u32, u32) -> u32,
    pub fin: spec_fn(u32) -> bool,
}

pub open spec fn aut_ok(a: MzAut) -> bool {
    &&& 1 <= a.n < u32::MAX - 1
    &&& 1 <= a.m <= u32::MAX
    &&& forall|x: u32, c: u32| x < a.n && c < a.m ==> #[trigger] (a.d)(x, c) < a.n
}

// ---- residual languages over the abstract alphabet ----
pub open spec fn mz_word(a: MzAut, w: Seq<u32>) -> bool {
    forall|i: int| 0 <= i < w.len() ==> #[trigger] w[i] < a.m
}

pub open spec fn mz_run(a: MzAut, x: u32, w: Seq<u32>) -> u32
    decreases w.len()
{
    if w.len() == 0 { x } else { mz_run(a, (a.d)(x, w[0]), w.drop_first()) }
}

pub open spec fn mz_acc(a: MzAut, x: u32, w: Seq<u32>) -> bool {
    (a.fin)(mz_run(a, x, w))
}

// x and y accept the same words (Myhill-Nerode equivalence of states)
pub open spec fn nerode(a: MzAut, x: u32, y: u32) -> bool {
    forall|w: Seq<u32>| mz_word(a, w) ==> #[trigger] mz_acc(a, x, w) == mz_acc(a, y, w)
}

// ---- what the partition must satisfy ----
pub open spec fn same_blk(p: Partition, x: u32, y: u32) -> bool { pt_bid(p, x) == pt_bid(p, y) }

pub open spec fn refines_fin(a: MzAut, p: Partition) -> bool {
    forall|x: u32, y: u32| x < a.n && y < a.n && #[trigger] same_blk(p, x, y) ==> (a.fin)(x) == (a.fin)(y)
}

// the partition never separates two equivalent states
pub open spec fn keeps_nerode(a: MzAut, p: Partition) -> bool {
    forall|x: u32, y: u32| x < a.n && y < a.n && #[trigger] nerode(a, x, y) ==> same_blk(p, x, y)
}

pub open spec fn step_same(a: MzAut, p: Partition, x: u32, y: u32, c: u32) -> bool {
    same_blk(p, (a.d)(x, c), (a.d)(y, c))
}

pub open spec fn congruence(a: MzAut, p: Partition) -> bool {
    forall|x: u32, y: u32, c: u32| x < a.n && y < a.n && c < a.m && same_blk(p, x, y) ==> #[trigger] step_same(a, p, x, y, c)
}

// ---- splitter lists ----
pub open spec fn sl_wf(l: SplitterList) -> bool { l.num_active <= l.list@.len() }

// entry k of l is (c, cls) and is active iff a
pub open spec fn sl_at(l: SplitterList, k: int, c: u32, cls: u32, a: bool) -> bool {
    0 <= k < l.list@.len() && l.list@[k].char == c && l.list@[k].class == cls && a == (k < l.num_active)
}

pub open spec fn sl_has(l: SplitterList, c: u32, cls: u32, a: bool) -> bool {
    exists|k: int| #[trigger] sl_at(l, k, c, cls, a)
}

// at most one entry per letter
pub open spec fn sl_uniq(l: SplitterList) -> bool {
    forall|k1: int, k2: int| 0 <= k1 < l.list@.len() && 0 <= k2 < l.list@.len() && k1 != k2 ==> (#[trigger] l.list@[k1]).char != (#[trigger] l.list@[k2]).char
}

pub open spec fn sl_has_char(l: SplitterList, c: u32) -> bool {
    exists|cls: u32, a: bool| #[trigger] sl_has(l, c, cls, a)
}

pub open spec fn sl_empty(l: SplitterList) -> bool { l.list@.len() == 0 && l.num_active == 0 }

// ---- the set of splitter lists, indexed by block ----
pub open spec fn ls_wf(ls: Seq<SplitterList>) -> bool {
    forall|b: int| 0 <= b < ls.len() ==> sl_wf(#[trigger] ls[b]) && sl_uniq(ls[b])
}

pub open spec fn ls_has(ls: Seq<SplitterList>, b: int, c: u32, cls: u32, a: bool) -> bool {
    0 <= b < ls.len() && sl_has(ls[b], c, cls, a)
}

// (b, c) is an active splitter
pub open spec fn ls_act(ls: Seq<SplitterList>, b: int, c: u32) -> bool {
    exists|cls: u32| #[trigger] ls_has(ls, b, c, cls, true)
}

// (b, c) has an entry (active or not)
pub open spec fn ls_entry(ls: Seq<SplitterList>, b: int, c: u32) -> bool {
    exists|cls: u32, a: bool| #[trigger] ls_has(ls, b, c, cls, a)
}

// ---- predecessor classes ----
// block cls of pc is { x | d(x, c) lies in the block that bidv calls b }
pub open spec fn class_is(a: MzAut, pc: BasePartition, cls: int, bidv: spec_fn(u32) -> u32, b: int, c: u32) -> bool {
    forall|x: u32| #[trigger] bp_in(pc, cls, x) <==> (x < a.n && bidv((a.d)(x, c)) == b)
}

// every entry for letter c names the class of predecessors of its block
pub open spec fn entries_ok(a: MzAut, ls: Seq<SplitterList>, pc: BasePartition, bidv: spec_fn(u32) -> u32, nb: int, c: u32) -> bool {
    forall|b: int, cls: u32, act: bool| #[trigger] ls_has(ls, b, c, cls, act) ==>
        1 <= b < nb && 1 <= cls < pc.block@.len() && class_is(a, pc, cls as int, bidv, b, c)
}

// every state has an entry for the block its c-successor lies in
pub open spec fn complete_for(a: MzAut, ls: Seq<SplitterList>, bidv: spec_fn(u32) -> u32, c: u32) -> bool {
    forall|x: u32| x < a.n ==> #[trigger] ls_entry(ls, bidv((a.d)(x, c)) as int, c)
}

pub open spec fn bid_of(p: Partition) -> spec_fn(u32) -> u32 { |x: u32| pt_bid(p, x) }

// the lists and predecessor classes describe the partition whose block ids are bidv
pub open spec fn lists_ok(a: MzAut, ls: Seq<SplitterList>, preds: Seq<BasePartition>, bidv: spec_fn(u32) -> u32, nb: int) -> bool {
    &&& ls_wf(ls)
    &&& preds.len() == a.m
    &&& forall|c: int| 0 <= c < a.m ==> bp_wf(#[trigger] preds[c]) && preds[c].size == a.n
    &&& forall|c: u32| c < a.m ==> #[trigger] entries_ok(a, ls, preds[c as int], bidv, nb, c)
    &&& forall|c: u32| c < a.m ==> #[trigger] complete_for(a, ls, bidv, c)
    &&& forall|b: int, c: u32, cls: u32, act: bool| #[trigger] ls_has(ls, b, c, cls, act) ==> c < a.m
}

// ---- Hopcroft's invariant, pairwise form ----
// x and y (same block) whose c-successors lie in different blocks are told apart by an active splitter,
// unless the exception exc covers them (the splitter being processed)
pub open spec fn hop_pair(a: MzAut, ls: Seq<SplitterList>, p: Partition, exc: spec_fn(u32, u32, u32) -> bool, x: u32, y: u32, c: u32) -> bool {
    same_blk(p, (a.d)(x, c), (a.d)(y, c))
        || ls_act(ls, pt_bid(p, (a.d)(x, c)) as int, c) || ls_act(ls, pt_bid(p, (a.d)(y, c)) as int, c) || exc(x, y, c)
}

pub open spec fn hop_inv(a: MzAut, ls: Seq<SplitterList>, p: Partition, exc: spec_fn(u32, u32, u32) -> bool) -> bool {
    forall|x: u32, y: u32, c: u32| x < a.n && y < a.n && c < a.m && same_blk(p, x, y) ==> #[trigger] hop_pair(a, ls, p, exc, x, y, c)
}

pub open spec fn no_exc() -> spec_fn(u32, u32, u32) -> bool { |x: u32, y: u32, c: u32| false }

// ---- the Minimizer structure ----
pub open spec fn d_req<D: Fn(u32, u32) -> u32>(d: &D, x: u32, c: u32) -> bool { call_requires(*d, (x, c)) }
pub open spec fn d_ens<D: Fn(u32, u32) -> u32>(d: &D, x: u32, c: u32, r: u32) -> bool { call_ensures(*d, (x, c), r) }

pub open spec fn mz_aut<D: Fn(u32, u32) -> u32, F: Fn(u32) -> bool>(m: Minimizer<D, F>) -> MzAut {
    MzAut {
        n: m.num_states as nat,
        m: m.alphabet_size as nat,
        d: |x: u32, c: u32| if exists|r: u32| call_ensures(m.delta, (x, c), r) { choose|r: u32| call_ensures(m.delta, (x, c), r) } else { 0u32 },
        fin: |x: u32| choose|r: bool| call_ensures(m.is_final, (x,), r),
    }
}

// the two closures are total on the automaton's domain and behave as functions
pub open spec fn funs_ok<D: Fn(u32, u32) -> u32, F: Fn(u32) -> bool>(m: Minimizer<D, F>) -> bool {
    let a = mz_aut(m);
    &&& forall|x: u32, c: u32| x < a.n && c < a.m ==> #[trigger] call_requires(m.delta, (x, c))
    &&& forall|x: u32, c: u32, r: u32| x < a.n && c < a.m && #[trigger] call_ensures(m.delta, (x, c), r) ==> r == (a.d)(x, c)
    &&& forall|x: u32| x < a.n ==> #[trigger] call_requires(m.is_final, (x,))
    &&& forall|x: u32, r: bool| x < a.n && #[trigger] call_ensures(m.is_final, (x,), r) ==> r == (a.fin)(x)
}

pub open spec fn same_spec<D: Fn(u32, u32) -> u32, F: Fn(u32) -> bool>(m2: Minimizer<D, F>, m1: Minimizer<D, F>) -> bool {
    m2.num_states == m1.num_states && m2.alphabet_size == m1.alphabet_size && m2.delta == m1.delta && m2.is_final == m1.is_final
}

// block ids before block i was split into (i, j)
pub open spec fn bid_before(p: Partition, i: u32, j: u32) -> spec_fn(u32) -> u32 {
    |x: u32| if pt_bid(p, x) == j { i } else { pt_bid(p, x) }
}

// everything but Hopcroft's invariant: the partition, the lists and the predecessor classes fit together
// (bidv / nb: the partition the lists describe; it lags behind main_partition while a split is being recorded)
pub open spec fn mz_struct<D: Fn(u32, u32) -> u32, F: Fn(u32) -> bool>(m: Minimizer<D, F>, bidv: spec_fn(u32) -> u32, nb: int) -> bool {
    let a = mz_aut(m);
    &&& aut_ok(a)
    &&& funs_ok(m)
    &&& pt_wf(m.main_partition)
    &&& m.main_partition.base.size == a.n
    &&& lists_ok(a, m.splitters.list@, m.pred_classes@, bidv, nb)
    &&& m.splitters.list@.len() <= nb
    &&& m.splitters.active_block < m.splitters.list@.len()
}

// how the activity of splitters moves when block i is split into (i, j)
pub open spec fn act_moved(a: MzAut, ls0: Seq<SplitterList>, ls1: Seq<SplitterList>, p: Partition, i: u32, j: u32) -> bool {
    &&& forall|b: int, c: u32| b != i && b != j ==> #[trigger] ls_act(ls1, b, c) == ls_act(ls0, b, c)
    &&& forall|x: u32, c: u32| #![trigger ls_act(ls1, pt_bid(p, (a.d)(x, c)) as int, c)] x < a.n && c < a.m && ls_act(ls0, i as int, c)
            && (pt_bid(p, (a.d)(x, c)) == i || pt_bid(p, (a.d)(x, c)) == j) ==> ls_act(ls1, pt_bid(p, (a.d)(x, c)) as int, c)
    &&& forall|x: u32, y: u32, c: u32| #![trigger pt_bid(p, (a.d)(x, c)), pt_bid(p, (a.d)(y, c))] x < a.n && y < a.n && c < a.m
            && pt_bid(p, (a.d)(x, c)) == i && pt_bid(p, (a.d)(y, c)) == j ==> ls_act(ls1, i as int, c) || ls_act(ls1, j as int, c)
}

// ---- recording a split: upate_splitters_after_refinement(i, j) ----
pub open spec fn up_pre<D: Fn(u32, u32) -> u32, F: Fn(u32) -> bool>(m: Minimizer<D, F>, i: u32, j: u32) -> bool {
    &&& 1 <= i < j
    &&& j == m.main_partition.base.block@.len() - 1
    &&& mz_struct(m, bid_before(m.main_partition, i, j), j as int)
}

pub open spec fn up_post<D: Fn(u32, u32) -> u32, F: Fn(u32) -> bool>(m1: Minimizer<D, F>, m0: Minimizer<D, F>, i: u32, j: u32) -> bool {
    &&& same_spec(m1, m0)
    &&& m1.main_partition == m0.main_partition
    &&& mz_struct(m1, bid_of(m1.main_partition), j + 1)
    &&& act_moved(mz_aut(m0), m0.splitters.list@, m1.splitters.list@, m0.main_partition, i, j)
}

// letter c is the letter of one of the first t entries of olds
pub open spec fn done_char(olds: SplitterList, t: int, c: u32) -> bool {
    exists|k: int| 0 <= k < t && k < olds.list@.len() && (#[trigger] olds.list@[k]).char == c
}

// for letter c: the states that go to i or j on c have an entry for that block, and activity was handed on
pub open spec fn char_moved(a: MzAut, ls0: Seq<SplitterList>, ls1: Seq<SplitterList>, p: Partition, i: u32, j: u32, c: u32) -> bool {
    &&& forall|x: u32| #![trigger ls_entry(ls1, pt_bid(p, (a.d)(x, c)) as int, c)] x < a.n && (pt_bid(p, (a.d)(x, c)) == i || pt_bid(p, (a.d)(x, c)) == j)
            ==> ls_entry(ls1, pt_bid(p, (a.d)(x, c)) as int, c)
    &&& ls_act(ls0, i as int, c) ==> (forall|x: u32| #![trigger ls_act(ls1, pt_bid(p, (a.d)(x, c)) as int, c)] x < a.n && (pt_bid(p, (a.d)(x, c)) == i || pt_bid(p, (a.d)(x, c)) == j)
            ==> ls_act(ls1, pt_bid(p, (a.d)(x, c)) as int, c))
    &&& forall|x: u32, y: u32| #![trigger pt_bid(p, (a.d)(x, c)), pt_bid(p, (a.d)(y, c))] x < a.n && y < a.n
            && pt_bid(p, (a.d)(x, c)) == i && pt_bid(p, (a.d)(y, c)) == j ==> ls_act(ls1, i as int, c) || ls_act(ls1, j as int, c)
}

// the list that take_list(i) returned
pub open spec fn olds_is(ls0: Seq<SplitterList>, i: u32, olds: SplitterList) -> bool {
    if i < ls0.len() { olds == ls0[i as int] } else { sl_empty(olds) }
}

pub open spec fn up_loop<D: Fn(u32, u32) -> u32, F: Fn(u32) -> bool>(m: Minimizer<D, F>, m0: Minimizer<D, F>, i: u32, j: u32,
    ls0: Seq<SplitterList>, preds0: Seq<BasePartition>, olds: SplitterList, t: int) -> bool {
    let a = mz_aut(m0);
    let p = m0.main_partition;
    let ls = m.splitters.list@;
    let preds = m.pred_classes@;
    &&& same_spec(m, m0)
    &&& m.main_partition == p
    &&& m.splitters.active_block == m0.splitters.active_block
    &&& up_lists(a, p, i, j, ls0, preds0, olds, t, ls, preds)
}

pub open spec fn up_lists(a: MzAut, p: Partition, i: u32, j: u32, ls0: Seq<SplitterList>, preds0: Seq<BasePartition>, olds: SplitterList, t: int,
    ls: Seq<SplitterList>, preds: Seq<BasePartition>) -> bool {
    &&& olds_is(ls0, i, olds)
    &&& 0 <= t <= olds.list@.len()
    &&& ls_wf(ls)
    &&& ls0.len() <= ls.len() <= j + 1
    &&& preds.len() == a.m
    &&& forall|c: int| 0 <= c < a.m ==> bp_wf(#[trigger] preds[c]) && preds[c].size == a.n
    // untouched lists
    &&& forall|b: int| 0 <= b < ls.len() && b != i && b != j ==> (if b < ls0.len() { #[trigger] ls[b] == ls0[b] } else { sl_empty(ls[b]) })
    // entries of the lists of other blocks still name the right classes
    &&& forall|b: int, c: u32, cls: u32, act: bool| b != i && b != j && #[trigger] ls_has(ls0, b, c, cls, act) ==>
            1 <= cls < preds[c as int].block@.len() && class_is(a, preds[c as int], cls as int, bid_of(p), b, c)
    // entries of lists i and j: letters already handled, right classes
    &&& forall|b: int, c: u32, cls: u32, act: bool| (b == i || b == j) && #[trigger] ls_has(ls, b, c, cls, act) ==>
            done_char(olds, t, c) && 1 <= cls < preds[c as int].block@.len() && class_is(a, preds[c as int], cls as int, bid_of(p), b, c)
    // letters not handled yet: predecessor classes untouched
    &&& forall|c: u32| c < a.m && !done_char(olds, t, c) ==> #[trigger] preds[c as int] == preds0[c as int]
    // letters handled: entries complete, activity handed on
    &&& forall|c: u32| c < a.m && #[trigger] done_char(olds, t, c) ==> char_moved(a, ls0, ls, p, i, j, c)
}

// the effect of the (at most two) add_splitter calls of one iteration
pub open spec fn added2(ls1: Seq<SplitterList>, ls2: Seq<SplitterList>, i: u32, j: u32, c: u32, class1: u32, a1: bool, class2: u32, a2: bool) -> bool {
    &&& ls_wf(ls2)
    &&& ls1.len() <= ls2.len() <= j + 1
    &&& forall|b: int| 0 <= b < ls2.len() && b != i && b != j ==> (if b < ls1.len() { #[trigger] ls2[b] == ls1[b] } else { sl_empty(ls2[b]) })
    &&& forall|c2: u32, cls2: u32, act2: bool| #[trigger] ls_has(ls2, i as int, c2, cls2, act2) <==> (ls_has(ls1, i as int, c2, cls2, act2) || (class1 != 0 && c2 == c && cls2 == class1 && act2 == a1))
    &&& forall|c2: u32, cls2: u32, act2: bool| #[trigger] ls_has(ls2, j as int, c2, cls2, act2) <==> (ls_has(ls1, j as int, c2, cls2, act2) || (class2 != 0 && c2 == c && cls2 == class2 && act2 == a2))
}

pub open spec fn sl_has_char_at(ls: Seq<SplitterList>, b: int, c: u32) -> bool { 0 <= b < ls.len() && sl_has_char(ls[b], c) }

// ---- the invariant of the refinement loop ----
// exception of Hopcroft's invariant while splitter (blk, c0) is being processed: pairs told apart by
// "the c0-successor lies in block blk of partition p0"
pub open spec fn exc_of(a: MzAut, p0: Partition, blk: u32, c0: u32) -> spec_fn(u32, u32, u32) -> bool {
    |x: u32, y: u32, c: u32| c == c0 && (pt_bid(p0, (a.d)(x, c)) == blk) != (pt_bid(p0, (a.d)(y, c)) == blk)
}

pub open spec fn mz_inv<D: Fn(u32, u32) -> u32, F: Fn(u32) -> bool>(m: Minimizer<D, F>, exc: spec_fn(u32, u32, u32) -> bool) -> bool {
    let a = mz_aut(m);
    let p = m.main_partition;
    &&& mz_struct(m, bid_of(p), p.base.block@.len() as int)
    &&& hop_inv(a, m.splitters.list@, p, exc)
    &&& keeps_nerode(a, p)
}

// p2 refines p1: blocks were only split
pub open spec fn pt_finer(p2: Partition, p1: Partition) -> bool {
    &&& p2.base.size == p1.base.size
    &&& p2.base.block@.len() >= p1.base.block@.len()
    &&& forall|x: u32, y: u32| x < p1.base.size && y < p1.base.size && #[trigger] same_blk(p2, x, y) ==> same_blk(p1, x, y)
}

// x and y agree on "the c0-successor lies in block blk of p0"
pub open spec fn uni(a: MzAut, p0: Partition, blk: u32, c0: u32, x: u32, y: u32) -> bool {
    (pt_bid(p0, (a.d)(x, c0)) == blk) == (pt_bid(p0, (a.d)(y, c0)) == blk)
}

// block b of p0 was (possibly) split by splitter (blk, c0); every other block is as it was
pub open spec fn split_one(a: MzAut, p1: Partition, p0: Partition, b: u32, blk: u32, c0: u32) -> bool {
    &&& pt_finer(p1, p0)
    &&& p1.base.block@.len() <= p0.base.block@.len() + 1
    &&& forall|x: u32| x < a.n && pt_bid(p0, x) != b ==> #[trigger] pt_bid(p1, x) == pt_bid(p0, x)
    &&& forall|x: u32| x < a.n && pt_bid(p0, x) == b ==> #[trigger] pt_bid(p1, x) == b || pt_bid(p1, x) == p0.base.block@.len()
    &&& forall|x: u32, y: u32| x < a.n && y < a.n && pt_bid(p0, x) == b && #[trigger] same_blk(p1, x, y) ==> uni(a, p0, blk, c0, x, y)
}

pub open spec fn app1(f: spec_fn(u32) -> u32, v: u32) -> u32 { f(v) }

// x is a state of block b whose c0-successor lies in block blk
pub open spec fn cand_at(a: MzAut, p: Partition, b: u32, blk: u32, c0: u32, x: u32) -> bool {
    x < a.n && pt_bid(p, x) == b && pt_bid(p, (a.d)(x, c0)) == blk
}
pub open spec fn is_cand(a: MzAut, p: Partition, b: u32, blk: u32, c0: u32) -> bool {
    exists|x: u32| #[trigger] cand_at(a, p, b, blk, c0, x)
}

pub open spec fn blk_size(p: Partition, b: int) -> int { p.base.block@[b].end - p.base.block@[b].start }

// b is a block with at least two states, one of which has its c0-successor in block blk
pub open spec fn refinable(a: MzAut, p: Partition, b: u32, blk: u32, c0: u32) -> bool {
    1 <= b < p.base.block@.len() && blk_size(p, b as int) > 1 && is_cand(a, p, b, blk, c0)
}

// block blk has the same members in p1 as in p0
pub open spec fn blk_intact(a: MzAut, p1: Partition, p0: Partition, blk: u32) -> bool {
    forall|v: u32| v < a.n ==> (#[trigger] pt_bid(p1, v) == blk) == (pt_bid(p0, v) == blk)
}

// state of the loop of refine_with_splitter after idx candidates were handled
pub open spec fn rws_inv(a: MzAut, p: Partition, p0: Partition, blk: u32, c0: u32, elems: Seq<u32>, sz: int, idx: int) -> bool {
    &&& pt_finer(p, p0)
    &&& 0 <= idx <= sz <= elems.len()
    &&& blk_intact(a, p, p0, blk)
    &&& forall|k: int| idx <= k < sz ==> blk_intact(a, p, p0, #[trigger] elems[k])
    &&& forall|x: u32, y: u32, k: int| #![trigger same_blk(p, x, y), elems[k]] x < a.n && y < a.n && same_blk(p, x, y) && 0 <= k < idx && pt_bid(p0, x) == elems[k]
            ==> uni(a, p0, blk, c0, x, y)
}

// the candidate list: distinct refinable blocks other than blk
pub open spec fn cands_ok(a: MzAut, p0: Partition, blk: u32, c0: u32, elems: Seq<u32>, sz: int) -> bool {
    &&& 0 <= sz <= elems.len()
    &&& forall|k: int| 0 <= k < sz ==> refinable(a, p0, #[trigger] elems[k], blk, c0) && elems[k] != blk
    &&& forall|k1: int, k2: int| 0 <= k1 < sz && 0 <= k2 < sz && k1 != k2 ==> elems[k1] != elems[k2]
    &&& forall|b: u32| refinable(a, p0, b, blk, c0) && b != blk ==> exists|k: int| 0 <= k < sz && #[trigger] elems[k] == b
}

// what refine() delivers: the partition is the Myhill-Nerode equivalence of the automaton
pub open spec fn is_nerode_partition(a: MzAut, p: Partition) -> bool {
    &&& pt_wf(p)
    &&& p.base.size == a.n
    &&& refines_fin(a, p)
    &&& congruence(a, p)
    &&& keeps_nerode(a, p)
}

// what Minimizer::new asks of the two closures: total on the automaton's domain, functional, successors in range
pub open spec fn closures_ok<D: Fn(u32, u32) -> u32, F: Fn(u32) -> bool>(n: u32, m: u32, delta: D, is_final: F) -> bool {
    &&& forall|x: u32, c: u32| x < n && c < m ==> #[trigger] call_requires(delta, (x, c))
    &&& forall|x: u32, c: u32, r: u32| x < n && c < m && #[trigger] call_ensures(delta, (x, c), r) ==> r < n
    &&& forall|x: u32, c: u32, r1: u32, r2: u32| x < n && c < m && #[trigger] call_ensures(delta, (x, c), r1) && #[trigger] call_ensures(delta, (x, c), r2) ==> r1 == r2
    &&& forall|x: u32| x < n ==> #[trigger] call_requires(is_final, (x,))
    &&& forall|x: u32, r1: bool, r2: bool| x < n && #[trigger] call_ensures(is_final, (x,), r1) && #[trigger] call_ensures(is_final, (x,), r2) ==> r1 == r2
    // the closures return when called on the domain (so that "the value they return" is defined)
    &&& forall|x: u32, c: u32| x < n && c < m ==> #[trigger] d_returns(delta, x, c)
    &&& forall|x: u32| x < n ==> #[trigger] f_returns(is_final, x)
}

pub open spec fn d_returns<D: Fn(u32, u32) -> u32>(delta: D, x: u32, c: u32) -> bool { exists|r: u32| call_ensures(delta, (x, c), r) }
pub open spec fn f_returns<F: Fn(u32) -> bool>(is_final: F, x: u32) -> bool { exists|r: bool| call_ensures(is_final, (x,), r) }

// ---- termination measure of refine(): (blocks that can still be created, active splitters) ----
pub open spec fn sum_active(ls: Seq<SplitterList>) -> nat
    decreases ls.len()
{
    if ls.len() == 0 { 0 } else { sum_active(ls.drop_last()) + ls.last().num_active as nat }
}
