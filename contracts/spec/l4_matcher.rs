// L4 (concatenation matcher): base patterns over a decomposed concatenation v

// what base_patterns(v) returns: consecutive non-empty slices covering v, alternately rigid
// (all Range terms) and flexible (no Range term)
pub open spec fn bp_cover(ps: Seq<BasePattern>, v: Seq<RegLan>) -> bool {
    &&& (v.len() == 0) == (ps.len() == 0)
    &&& ps.len() > 0 ==> ps[0].start == 0 && ps[ps.len() - 1].end == v.len()
    &&& forall|i: int| 0 <= i < ps.len() ==> (#[trigger] ps[i]).start < ps[i].end && ps[i].end <= v.len()
    &&& forall|i: int| 0 <= i < ps.len() - 1 ==> (#[trigger] ps[i]).end == ps[i + 1].start && ps[i].is_rigid != ps[i + 1].is_rigid
    &&& forall|i: int, j: int| 0 <= i < ps.len() && (#[trigger] ps[i]).start <= j < ps[i].end ==> (#[trigger] v[j]).expr is Range == ps[i].is_rigid
}

// u[i + j] is a character range inside pattern[j], for every j
pub open spec fn rigid_at(pattern: Seq<&CharSet>, s: Seq<RegLan>, i: int) -> bool {
    0 <= i && i + pattern.len() <= s.len()
        && forall|j: int| 0 <= j < pattern.len() ==> range_inside((#[trigger] s[i + j]).expr, *pattern[j])
}

pub open spec fn range_inside(k: BaseRegLan, p: CharSet) -> bool {
    k matches BaseRegLan::Range(x) && (forall|c: int| cs_has(x, c) ==> cs_has(p, c))
}

// cs lists the character sets of the Range terms p[0..]
pub open spec fn sets_of(cs: Seq<&CharSet>, p: Seq<RegLan>) -> bool {
    cs.len() == p.len() && forall|j: int| 0 <= j < p.len() ==> (#[trigger] p[j]).expr == BaseRegLan::Range(*cs[j])
}

pub open spec fn range_in_range(k1: BaseRegLan, k2: BaseRegLan) -> bool {
    k1 matches BaseRegLan::Range(x) && k2 matches BaseRegLan::Range(y) && (forall|c: int| cs_has(x, c) ==> cs_has(y, c))
}

// u[a .. a+n) are character ranges, pointwise inside the ranges v[s .. s+n)
pub open spec fn rigid_seg(u: Seq<RegLan>, a: int, v: Seq<RegLan>, s: int, n: int) -> bool {
    0 <= a && a + n <= u.len() && 0 <= s && s + n <= v.len() && 0 <= n
        && forall|j: int| 0 <= j < n ==> range_in_range((#[trigger] u[a + j]).expr, v[s + j].expr)
}

pub open spec fn bp_ok(p: BasePattern, v: Seq<RegLan>) -> bool {
    p.start < p.end && p.end <= v.len()
        && (p.is_rigid ==> forall|j: int| p.start <= j < p.end ==> (#[trigger] v[j]).expr is Range)
}

// the patterns keep their position in v
pub open spec fn same_shape(ps2: Seq<BasePattern>, ps1: Seq<BasePattern>) -> bool {
    ps2.len() == ps1.len() && forall|t: int| 0 <= t < ps1.len() ==> (#[trigger] ps2[t]).start == ps1[t].start && ps2[t].end == ps1[t].end && ps2[t].is_rigid == ps1[t].is_rigid
}

// rigid pattern t is matched in u at [start_match, end_match)
pub open spec fn rigid_placed(p: BasePattern, u: Seq<RegLan>, v: Seq<RegLan>) -> bool {
    p.is_rigid ==> rigid_seg(u, p.start_match as int, v, p.start as int, p.end - p.start) && p.end_match == p.start_match + (p.end - p.start)
}

// every rigid pattern is placed, in order, without overlap
pub open spec fn rigids_ok(ps: Seq<BasePattern>, u: Seq<RegLan>, v: Seq<RegLan>) -> bool {
    &&& forall|t: int| 0 <= t < ps.len() ==> rigid_placed(#[trigger] ps[t], u, v)
    &&& forall|t1: int, t2: int| 0 <= t1 < t2 < ps.len() && (#[trigger] ps[t1]).is_rigid && (#[trigger] ps[t2]).is_rigid ==> ps[t1].end_match <= ps[t2].start_match
}

pub open spec fn all_bp_ok(ps: Seq<BasePattern>, v: Seq<RegLan>) -> bool {
    forall|t: int| 0 <= t < ps.len() ==> bp_ok(#[trigger] ps[t], v)
}

pub open spec fn alternating(ps: Seq<BasePattern>) -> bool {
    forall|t: int| 0 <= t < ps.len() - 1 ==> (#[trigger] ps[t]).is_rigid != ps[t + 1].is_rigid
}

// consecutive slices of v, from its first to its last term
pub open spec fn contiguous(ps: Seq<BasePattern>, v: Seq<RegLan>) -> bool {
    &&& ps.len() > 0 ==> ps[0].start == 0 && ps[ps.len() - 1].end == v.len()
    &&& forall|t: int| 0 <= t < ps.len() - 1 ==> (#[trigger] ps[t]).end == ps[t + 1].start
}

// every word of x[a..b) is a word of y[s..e)
pub open spec fn seg_incl(x: Seq<RegLan>, a: int, b: int, y: Seq<RegLan>, s: int, e: int) -> bool {
    forall|w: Seq<u32>| #[trigger] cat_seg(x, a, b, w) ==> cat_seg(y, s, e, w)
}

// the patterns cut u and v into as many consecutive pieces, piece t of u included in piece t of v
pub open spec fn covered(ps: Seq<BasePattern>, u: Seq<RegLan>, v: Seq<RegLan>) -> bool {
    &&& ps.len() > 0
    &&& ps[0].start == 0 && ps[0].start_match == 0
    &&& ps[ps.len() - 1].end == v.len() && ps[ps.len() - 1].end_match == u.len()
    &&& forall|t: int| 0 <= t < ps.len() - 1 ==> (#[trigger] ps[t]).end == ps[t + 1].start && ps[t].end_match == ps[t + 1].start_match
    &&& forall|t: int| 0 <= t < ps.len() ==> (#[trigger] ps[t]).start_match <= ps[t].end_match && ps[t].end_match <= u.len() && ps[t].start < ps[t].end && ps[t].end <= v.len()
            && seg_incl(u, ps[t].start_match as int, ps[t].end_match as int, v, ps[t].start as int, ps[t].end as int)
}
