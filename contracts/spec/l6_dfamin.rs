// L6 (minimization of an Automaton): linking the abstract automaton of the Minimizer to the real one

// Myhill-Nerode equivalence of two states of a
pub open spec fn st_equiv(a: Automaton, x: int, y: int) -> bool {
    forall|w: Seq<u32>| ss_good(w) ==> #[trigger] accepts_from(a, x, w) == accepts_from(a, y, w)
}

// aa is the automaton the minimizer sees: states are ids, letters are column numbers of the compiled successor table
pub open spec fn abs_agrees(aa: MzAut, a: Automaton, t: CompactTable) -> bool {
    &&& aa.n == a.states@.len()
    &&& aa.m == t.alphabet_size
    &&& forall|x: u32, j: u32| x < aa.n && j < aa.m ==> #[trigger] (aa.d)(x, j) == ct_fn(t, x as int, j as int)
    &&& forall|x: u32| x < aa.n ==> #[trigger] (aa.fin)(x) == a.states@[x as int].is_final
}

// t is the successor table of a with respect to the combined character partition cp (what compile_successors ensures)
pub open spec fn table_of(t: CompactTable, a: Automaton, cp: CharPartition) -> bool {
    &&& ct_ok(t)
    &&& t.num_states == a.states@.len()
    &&& is_combined(cp, a)
    &&& t.alphabet_size == cp.list@.len() + (if cp_valid(cp, ClassId::Complement) { 1int } else { 0int })
    &&& forall|q: int, j: int, c: int| 0 <= q < a.states@.len() && #[trigger] in_class_no(cp, c, j) && 0 <= j < t.alphabet_size ==> #[trigger] ct_fn(t, q, j) == delta(a, q, c)
}

// the blocks of p are unions of equivalence classes and respect the real transition function
pub open spec fn real_cong(a: Automaton, p: Partition) -> bool {
    &&& forall|x: u32, y: u32| x < a.states@.len() && y < a.states@.len() && #[trigger] same_blk(p, x, y) ==> a.states@[x as int].is_final == a.states@[y as int].is_final
    &&& forall|x: u32, y: u32, c: u32| #![trigger same_blk(p, x, y), delta(a, x as int, c as int)] x < a.states@.len() && y < a.states@.len() && c <= MAX_CHAR && same_blk(p, x, y)
            ==> same_blk(p, delta(a, x as int, c as int) as u32, delta(a, y as int, c as int) as u32)
}

// h maps the states of a1 onto the states of a2 so that runs commute and h(x) == h(y) exactly for equivalent states
pub open spec fn quotient_of(a2: Automaton, a1: Automaton, h: Seq<int>) -> bool {
    &&& h.len() == a1.states@.len()
    &&& forall|x: int| 0 <= x < h.len() ==> 0 <= #[trigger] h[x] < a2.states@.len()
    &&& forall|q: int| 0 <= q < a2.states@.len() ==> #[trigger] has_preimage(h, q)
    &&& a2.initial_state == h[a1.initial_state as int]
    &&& forall|x: int, w: Seq<u32>| 0 <= x < h.len() && ss_good(w) ==> #[trigger] accepts_from(a2, h[x], w) == accepts_from(a1, x, w)
    &&& forall|x: int, y: int| 0 <= x < h.len() && 0 <= y < h.len() ==> (h[x] == h[y]) == #[trigger] st_equiv(a1, x, y)
}

pub open spec fn has_preimage(h: Seq<int>, q: int) -> bool { exists|x: int| 0 <= x < h.len() && #[trigger] h[x] == q }

// no two different states of a accept the same residual language
pub open spec fn all_distinct(a: Automaton) -> bool {
    forall|q1: int, q2: int| 0 <= q1 < a.states@.len() && 0 <= q2 < a.states@.len() && q1 != q2 ==> !#[trigger] st_equiv(a, q1, q2)
}

pub open spec fn same_language(a2: Automaton, a1: Automaton) -> bool {
    forall|w: Seq<u32>| ss_good(w) ==> #[trigger] accepts_from(a2, a2.initial_state as int, w) == accepts_from(a1, a1.initial_state as int, w)
}

// the mapping built from a partition: state x goes to block(x) - 1, new state b - 1 is represented by a member of block b
pub open spec fn map_of_partition(r: StateMapping, p: Partition) -> bool {
    &&& map_ok(r, p.base.size as int)
    &&& r.old_id@.len() == p.base.block@.len() - 1
    &&& forall|x: u32| x < p.base.size ==> #[trigger] r.new_id@[x as int] == pt_bid(p, x) - 1
    &&& forall|b: int| 1 <= b < p.base.block@.len() ==> pt_bid(p, #[trigger] r.old_id@[b - 1] as u32) == b
}

// views through references (for closure contracts)
pub open spec fn aut_len(a: &Automaton) -> int { a.states@.len() as int }
pub open spec fn aut_final(a: &Automaton, i: u32) -> bool { a.states@[i as int].is_final }
pub open spec fn tbl_ok(t: &CompactTable) -> bool { ct_ok(*t) }
pub open spec fn tbl_states(t: &CompactTable) -> u32 { t.num_states }
pub open spec fn tbl_alpha(t: &CompactTable) -> u32 { t.alphabet_size }
pub open spec fn tbl_fn(t: &CompactTable, i: u32, j: u32) -> u32 { ct_fn(*t, i as int, j as int) }

// `delta` under another name (Automaton::minimize has a local variable called delta)
pub open spec fn aut_delta(a: Automaton, q: int, c: int) -> int { delta(a, q, c) }
