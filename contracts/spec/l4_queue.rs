// L4 (queues): BfsQueue = FIFO queue of pending elements + set of every element ever pushed

// BfsQueue: the queue holds pending elements, the set every element ever pushed
pub open spec fn q_wf<T>(q: BfsQueue<T>) -> bool {
    (forall|i: int| 0 <= i < q.queue@.len() ==> q.set@.contains(#[trigger] q.queue@[i]))
        && q.queue@.no_duplicates()
}

// x was pushed and has been popped
pub open spec fn q_done<T>(q: BfsQueue<T>, x: T) -> bool {
    q.set@.contains(x) && !q.queue@.contains(x)
}

