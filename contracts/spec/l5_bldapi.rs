// L5 (builder API): the abstract state of an AutomatonBuilder

// ids are dense: every key maps below size, distinct keys have distinct ids, every id has a key
pub open spec fn bld_wf<T>(b: AutomatonBuilder<T>) -> bool {
    &&& b.size == b.states@.len()
    &&& forall|k: T| #[trigger] b.id_map@.contains_key(k) ==> b.id_map@[k] < b.size
    &&& forall|k1: T, k2: T| #![trigger b.id_map@[k1], b.id_map@[k2]] b.id_map@.contains_key(k1) && b.id_map@.contains_key(k2) && b.id_map@[k1] == b.id_map@[k2] ==> k1 == k2
    &&& states_ok(b.states@, b.size as int)
    &&& forall|q: int| 0 <= q < b.size ==> #[trigger] id_has_key(b.id_map@, q)
}

pub open spec fn id_has_key<T>(m: Map<T, usize>, q: int) -> bool {
    exists|k: T| m.contains_key(k) && #[trigger] m[k] == q
}

pub open spec fn sic_fresh(s: StateInConstruction) -> bool {
    !s.is_final && s.default_successor.is_none() && s.transitions@.len() == 0
}

// the effect of get_state_id(k) on the abstract state
pub open spec fn bld_after_get<T>(b2: AutomatonBuilder<T>, b1: AutomatonBuilder<T>, k: T, i: usize) -> bool {
    if b1.id_map@.contains_key(k) {
        b2.size == b1.size && b2.id_map@ == b1.id_map@ && b2.states@ == b1.states@ && i == b1.id_map@[k]
    } else {
        &&& i == b1.size
        &&& b2.size == b1.size + 1
        &&& b2.id_map@ == b1.id_map@.insert(k, i)
        &&& b2.states@.len() == b1.states@.len() + 1
        &&& b2.states@.subrange(0, b1.states@.len() as int) == b1.states@
        &&& sic_fresh(b2.states@[b1.states@.len() as int])
    }
}

// id that get_state_id(k) returns in state b
pub open spec fn key_id<T>(b: AutomatonBuilder<T>, k: T) -> usize {
    if b.id_map@.contains_key(k) { b.id_map@[k] } else { b.size }
}

pub open spec fn map_after<T>(m: Map<T, usize>, size: usize, k: T) -> Map<T, usize> {
    if m.contains_key(k) { m } else { m.insert(k, size) }
}

pub open spec fn size_after<T>(m: Map<T, usize>, size: usize, k: T) -> int {
    if m.contains_key(k) { size as int } else { size + 1 }
}

// state q of b1 as get_state_id would see it: the stored one, or a fresh one if q is not allocated yet
pub open spec fn sic_same(s2: StateInConstruction, s1: StateInConstruction) -> bool {
    s2.is_final == s1.is_final && s2.default_successor == s1.default_successor && s2.transitions@ == s1.transitions@
}

// every state other than i is untouched (old ones) or fresh (newly allocated ones)
pub open spec fn others_kept<T>(b2: AutomatonBuilder<T>, b1: AutomatonBuilder<T>, i: usize) -> bool {
    &&& b1.states@.len() <= b2.states@.len()
    &&& forall|q: int| 0 <= q < b1.states@.len() && q != i ==> sic_same(#[trigger] b2.states@[q], b1.states@[q])
    &&& forall|q: int| b1.states@.len() <= q < b2.states@.len() && q != i ==> sic_fresh(#[trigger] b2.states@[q])
}

// what state i looked like before the call (a fresh state if the call allocated it)
pub open spec fn base_final<T>(b1: AutomatonBuilder<T>, i: usize) -> bool {
    if i < b1.states@.len() { b1.states@[i as int].is_final } else { false }
}
pub open spec fn base_default<T>(b1: AutomatonBuilder<T>, i: usize) -> Option<usize> {
    if i < b1.states@.len() { b1.states@[i as int].default_successor } else { None }
}
pub open spec fn base_trans<T>(b1: AutomatonBuilder<T>, i: usize) -> Seq<(CharSet, usize)> {
    if i < b1.states@.len() { b1.states@[i as int].transitions@ } else { Seq::empty() }
}
