// L4: regular languages (oracle): the SMT-LIB 2.6 denotation of each constructor, on the crate's own term type.
// Words are sequences of code points; every language is a set of words over the alphabet [0, MAX_CHAR],
// so complement is taken within those words.
pub open spec fn word_ok(w: Seq<u32>) -> bool {
    forall|i: int| 0 <= i < w.len() ==> #[trigger] w[i] <= MAX_CHAR
}

// w is in the language denoted by a term whose top-level node is k
pub open spec fn lang_k(k: BaseRegLan, w: Seq<u32>) -> bool
    decreases k, 1nat, 0nat,
{
    match k {
        BaseRegLan::Empty => false,
        BaseRegLan::Epsilon => w.len() == 0,
        BaseRegLan::Range(c) => w.len() == 1 && cs_has(c, w[0] as int) && w[0] <= MAX_CHAR,
        BaseRegLan::Concat(a, b) => exists|i: int| #![trigger wit(i)] 0 <= i <= w.len() && wit(i) && lang_k(a.expr, w.subrange(0, i)) && lang_k(b.expr, w.subrange(i, w.len() as int)),
        BaseRegLan::Loop(a, r) => exists|n: int| #![trigger wit(n)] 0 <= n && wit(n) && lr_has(r, n) && pow_k(k, a.expr, n as nat, w),
        BaseRegLan::Complement(a) => word_ok(w) && !lang_k(a.expr, w),
        BaseRegLan::Union(l) => exists|i: int| #![trigger wit(i)] 0 <= i < l@.len() && wit(i) && lang_k(l@[i].expr, w),
        BaseRegLan::Inter(l) => word_ok(w) && (forall|i: int| #![trigger wit(i)] 0 <= i < l@.len() && wit(i) ==> lang_k(l@[i].expr, w)),
    }
}

// w is a concatenation of n words of L(a); `parent` (a loop over a) only serves the termination measure
pub open spec fn pow_k(parent: BaseRegLan, a: BaseRegLan, n: nat, w: Seq<u32>) -> bool
    decreases parent, 0nat, n,
{
    if n == 0 {
        w.len() == 0
    } else if parent matches BaseRegLan::Loop(b, _) && b.expr == a {
        exists|i: int| #![trigger wit(i)] 0 <= i <= w.len() && wit(i) && lang_k(a, w.subrange(0, i)) && pow_k(parent, a, (n - 1) as nat, w.subrange(i, w.len() as int))
    } else {
        false
    }
}

pub open spec fn lang(e: RE, w: Seq<u32>) -> bool { lang_k(e.expr, w) }
