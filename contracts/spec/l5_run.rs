// L5 (running a DFA): the transition function and the run of a word

// successor of state s on character c (functional form of st_maps); -1 if none is defined
pub open spec fn st_delta(s: State, c: int) -> int {
    if cl_in(s.classes.list@, c) {
        let i = choose|i: int| 0 <= i < s.classes.list@.len() && cs_has(#[trigger] s.classes.list@[i], c);
        s.successor@[i] as int
    } else {
        match s.default_successor { Some(y) => y as int, None => -1 }
    }
}

pub open spec fn delta(a: Automaton, q: int, c: int) -> int {
    st_delta(a.states@[q], c)
}

// state reached from q by reading w
pub open spec fn run(a: Automaton, q: int, w: Seq<u32>) -> int
    decreases w.len(),
{
    if w.len() == 0 { q } else { run(a, delta(a, q, w[0] as int), w.subrange(1, w.len() as int)) }
}

pub open spec fn accepts_from(a: Automaton, q: int, w: Seq<u32>) -> bool {
    a.states@[run(a, q, w)].is_final
}
