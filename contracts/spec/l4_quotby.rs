// d denotes the left quotient of k by the word u
pub open spec fn qb_at(d: BaseRegLan, k: BaseRegLan, u: Seq<u32>, w: Seq<u32>) -> bool {
    lang_k(d, w) == lang_k(k, u + w)
}

#[verifier::opaque]
pub open spec fn quot_by(d: BaseRegLan, k: BaseRegLan, u: Seq<u32>) -> bool {
    forall|w: Seq<u32>| #[trigger] qb_at(d, k, u, w)
}
