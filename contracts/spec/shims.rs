// R7 shims: `use std::cmp::{max, min}` is not copied, so these local
// definitions stand for std::cmp::max/min at type u32 (verified bodies; the
// only trust is that they agree with std on u32, where ties are indistinguishable).
pub fn max(a: u32, b: u32) -> (r: u32)
    ensures r == (if a >= b { a } else { b }),
{
    if a >= b { a } else { b }
}

pub fn min(a: u32, b: u32) -> (r: u32)
    ensures r == (if a <= b { a } else { b }),
{
    if a <= b { a } else { b }
}
