// R7 shim (ASSUMED std contract): Vec<T> -> Box<[T]> conversion keeps the elements
#[verifier::external_body]
pub fn vx_into_box<T>(v: Vec<T>) -> (r: Box<[T]>)
    ensures r@ == v@,
{ v.into() }
