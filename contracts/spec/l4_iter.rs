// L4 (exploration): breadth-first enumeration of the derivatives of a term

// x denotes the left quotient of e0 by some word (x is an iterated derivative of e0)
pub open spec fn reach(e0: RegLan, x: RegLan) -> bool {
    exists|u: Seq<u32>| #[trigger] quot_by(x.expr, e0.expr, u)
}

pub open spec fn all_reach(s: Set<RegLan>, e0: RegLan) -> bool {
    forall|x: RegLan| #[trigger] s.contains(x) ==> reach(e0, x)
}

// some member of s is the derivative of x with respect to c
pub open spec fn has_deriv_in(s: Set<RegLan>, x: RegLan, c: u32) -> bool {
    exists|y: RegLan| s.contains(y) && #[trigger] is_deriv(y, x, c)
}

// s holds the derivative of x for every character of the alphabet
pub open spec fn closed_at(s: Set<RegLan>, x: RegLan) -> bool {
    forall|c: u32| c <= MAX_CHAR ==> #[trigger] has_deriv_in(s, x, c)
}

// rank of a class id in the order ClassIdIterator lists them
pub open spec fn cid_rank(p: CharPartition, cid: ClassId) -> int {
    match cid {
        ClassId::Interval(i) => i as int,
        ClassId::Complement => p.list@.len() as int,
    }
}

// invariant of the enumeration: every popped term has all its derivatives in the set
pub open spec fn explored_ok(m: ReManager, q: BfsQueue<RegLan>) -> bool {
    &&& mgr_wf2(m)
    &&& q_wf(q)
    &&& forall|x: RegLan| #[trigger] q.set@.contains(x) ==> owned(m, x)
    &&& forall|x: RegLan| #[trigger] q_done(q, x) ==> closed_at(q.set@, x)
}

pub open spec fn dclass(e: RegLan) -> CharPartition { *e.deriv_class }
