// L4 (exploration): breadth-first enumeration of the derivatives of a term

// x denotes the left quotient of e0 by some word (x is an iterated derivative of e0)
pub open spec fn reach(e0: RegLan, x: RegLan) -> bool {
    exists|u: Seq<u32>| #[trigger] quot_by(x.expr, e0.expr, u)
}

pub open spec fn all_reach(s: Set<RegLan>, e0: RegLan) -> bool {
    forall|x: RegLan| #[trigger] s.contains(x) ==> reach(e0, x)
}

// some member of s is the derivative of x with respect to c
pub open spec fn has_deriv_in(s: Set<RegLan>, x: RegLan, c: u32) -> bool {
    exists|y: RegLan| s.contains(y) && #[trigger] is_deriv(y, x, c)
}

// s holds the derivative of x for every character of the alphabet
pub open spec fn closed_at(s: Set<RegLan>, x: RegLan) -> bool {
    forall|c: u32| c <= MAX_CHAR ==> #[trigger] has_deriv_in(s, x, c)
}

// rank of a class id in the order ClassIdIterator lists them
pub open spec fn cid_rank(p: CharPartition, cid: ClassId) -> int {
    match cid {
        ClassId::Interval(i) => i as int,
        ClassId::Complement => p.list@.len() as int,
    }
}

// term level: for every valid class of x, the manager records a derivative of x and s holds it
pub open spec fn has_tderiv_in(m: ReManager, s: Set<RegLan>, x: RegLan, cid: ClassId) -> bool {
    m.deriv_cache@.contains_key(DerivKey(x, cid)) && s.contains(m.deriv_cache@[DerivKey(x, cid)])
}

pub open spec fn tclosed_at(m: ReManager, s: Set<RegLan>, x: RegLan) -> bool {
    forall|cid: ClassId| cp_valid(dclass(x), cid) ==> #[trigger] has_tderiv_in(m, s, x, cid)
}

// y is obtained from e0 by n steps of the manager's recorded derivatives
pub open spec fn treach_n(m: ReManager, e0: RegLan, y: RegLan, n: nat) -> bool
    decreases n
{
    if n == 0 { y == e0 }
    else { exists|x: RegLan, cid: ClassId| #![trigger tderiv(m, x, cid, y)] treach_n(m, e0, x, (n - 1) as nat) && cp_valid(dclass(x), cid) && tderiv(m, x, cid, y) }
}

pub open spec fn treach(m: ReManager, e0: RegLan, y: RegLan) -> bool {
    exists|n: nat| #[trigger] treach_n(m, e0, y, n)
}

pub open spec fn all_treach(m: ReManager, s: Set<RegLan>, e0: RegLan) -> bool {
    forall|x: RegLan| #[trigger] s.contains(x) ==> treach(m, e0, x)
}

// s is THE set of terms generated from e0 by the recorded derivatives: it holds e0, every member has
// all its class derivatives recorded and in s, and every member is generated from e0
pub open spec fn term_closure(m: ReManager, e0: RegLan, s: Set<RegLan>) -> bool {
    &&& s.contains(e0)
    &&& forall|x: RegLan| #[trigger] s.contains(x) ==> tclosed_at(m, s, x)
    &&& all_treach(m, s, e0)
}

// invariant of the enumeration: every popped term has all its derivatives in the set
pub open spec fn explored_ok(m: ReManager, q: BfsQueue<RegLan>) -> bool {
    &&& mgr_wf2(m)
    &&& q_wf(q)
    &&& forall|x: RegLan| #[trigger] q.set@.contains(x) ==> owned(m, x)
    &&& forall|x: RegLan| #[trigger] q_done(q, x) ==> closed_at(q.set@, x)
    &&& forall|x: RegLan| #[trigger] q_done(q, x) ==> tclosed_at(m, q.set@, x)
}

pub open spec fn dclass(e: RegLan) -> CharPartition { *e.deriv_class }
