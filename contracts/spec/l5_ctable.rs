// L5 (compact tables): base/check/value/default encoding of a function state x letter -> state

// the function the four arrays encode (CompactTable::eval)
pub open spec fn ct_lookup(base: Seq<u32>, check: Seq<u32>, value: Seq<u32>, default: Seq<u32>, s: int, c: int) -> u32 {
    if check[base[s] + c] == s { value[base[s] + c] } else { default[s] }
}

// structural invariant shared by the builder and the finished table
pub open spec fn ct_arrays_ok(n: int, alpha: int, base: Seq<u32>, check: Seq<u32>, value: Seq<u32>, default: Seq<u32>) -> bool {
    &&& n > 0 && alpha > 0
    &&& default.len() == n && base.len() == n
    &&& check.len() == value.len()
    &&& forall|s: int| 0 <= s < n ==> (#[trigger] base[s]) + alpha <= check.len()
    // every used slot belongs to the row of its owner
    &&& forall|k: int| 0 <= k < check.len() ==> (#[trigger] check[k]) <= n
    &&& forall|k: int| 0 <= k < check.len() && (#[trigger] check[k]) < n ==> base[check[k] as int] <= k < base[check[k] as int] + alpha
}

pub open spec fn ctb_ok(b: CompactTableBuilder) -> bool {
    ct_arrays_ok(b.num_states as int, b.alphabet_size as int, b.base@, b.check@, b.value@, b.default@)
        && b.check@.len() >= b.alphabet_size
}

pub open spec fn ct_ok(t: CompactTable) -> bool {
    ct_arrays_ok(t.num_states as int, t.alphabet_size as int, t.base@, t.check@, t.value@, t.default@)
}

pub open spec fn ctb_fn(b: CompactTableBuilder, s: int, c: int) -> u32 {
    ct_lookup(b.base@, b.check@, b.value@, b.default@, s, c)
}

pub open spec fn ct_fn(t: CompactTable, s: int, c: int) -> u32 {
    ct_lookup(t.base@, t.check@, t.value@, t.default@, s, c)
}

// state i owns no slot yet
pub open spec fn row_unused(b: CompactTableBuilder, i: int) -> bool {
    forall|k: int| 0 <= k < b.check@.len() ==> #[trigger] b.check@[k] != i
}

// the successor list gives v for letter c
pub open spec fn succ_has(l: Seq<(u32, u32)>, c: int, v: u32) -> bool {
    exists|j: int| 0 <= j < l.len() && (#[trigger] l[j]).0 == c && l[j].1 == v
}

pub open spec fn succ_mentions(l: Seq<(u32, u32)>, c: int) -> bool {
    exists|j: int| 0 <= j < l.len() && (#[trigger] l[j]).0 == c
}

// letters are below alpha and no letter occurs twice
pub open spec fn succ_list_ok(l: Seq<(u32, u32)>, alpha: int) -> bool {
    &&& forall|j: int| 0 <= j < l.len() ==> (#[trigger] l[j]).0 < alpha
    &&& forall|i: int, j: int| 0 <= i < j < l.len() ==> (#[trigger] l[i]).0 != (#[trigger] l[j]).0
}

// slot k holds one of the first n entries of the list stored at base b
pub open spec fn slot_hit(l: Seq<(u32, u32)>, n: int, b: int, k: int) -> bool {
    exists|j: int| 0 <= j < n && b + (#[trigger] l[j]).0 == k
}
