// L3 (literals): SMT-LIB 2.6 string-literal escapes (oracle, grammar level).
// An escape is \\u followed by exactly four hex digits, or \\u{ one to five hex digits } with
// value <= 0x2FFFF.  Everything else, including the characters of a malformed or out-of-range
// escape attempt, denotes itself.
pub open spec fn is_hex(c: char) -> bool {
    ('0' <= c && c <= '9') || ('a' <= c && c <= 'f') || ('A' <= c && c <= 'F')
}

pub open spec fn hexval(c: char) -> int {
    if '0' <= c && c <= '9' { c as int - 0x30 }
    else if 'a' <= c && c <= 'f' { c as int - 0x61 + 10 }
    else if 'A' <= c && c <= 'F' { c as int - 0x41 + 10 }
    else { 0 }
}

// t[i .. i+k) are hex digits
pub open spec fn hex_run(t: Seq<char>, i: int, k: int) -> bool {
    forall|j: int| i <= j < i + k ==> is_hex(#[trigger] t[j])
}

// value of the k hex digits t[i .. i+k), most significant first
pub open spec fn hex_value(t: Seq<char>, i: int, k: int) -> int
    decreases k,
{
    if k <= 0 { 0 } else { 16 * hex_value(t, i, k - 1) + hexval(t[i + k - 1]) }
}

pub open spec fn esc4_at(t: Seq<char>, i: int) -> bool {
    0 <= i && i + 6 <= t.len() && t[i] == '\\' && t[i + 1] == 'u' && hex_run(t, i + 2, 4)
}

pub open spec fn escb_at(t: Seq<char>, i: int, k: int) -> bool {
    0 <= i && 1 <= k <= 5 && i + 4 + k <= t.len() && t[i] == '\\' && t[i + 1] == 'u' && t[i + 2] == '{'
        && hex_run(t, i + 3, k) && t[i + 3 + k] == '}' && hex_value(t, i + 3, k) <= MAX_CHAR
}

// code point stored for a text character that is not part of an escape
pub open spec fn lit_clean(c: char) -> u32 { if c as u32 <= MAX_CHAR { c as u32 } else { 0xFFFDu32 } }

// the string denoted by the text t from position i on
pub open spec fn lit_parse_from(t: Seq<char>, i: int) -> Seq<u32>
    decreases t.len() - i,
{
    if i < 0 || i >= t.len() { Seq::<u32>::empty() }
    else if esc4_at(t, i) { seq![hex_value(t, i + 2, 4) as u32] + lit_parse_from(t, i + 6) }
    else if escb_at(t, i, 1) { seq![hex_value(t, i + 3, 1) as u32] + lit_parse_from(t, i + 5) }
    else if escb_at(t, i, 2) { seq![hex_value(t, i + 3, 2) as u32] + lit_parse_from(t, i + 6) }
    else if escb_at(t, i, 3) { seq![hex_value(t, i + 3, 3) as u32] + lit_parse_from(t, i + 7) }
    else if escb_at(t, i, 4) { seq![hex_value(t, i + 3, 4) as u32] + lit_parse_from(t, i + 8) }
    else if escb_at(t, i, 5) { seq![hex_value(t, i + 3, 5) as u32] + lit_parse_from(t, i + 9) }
    else { seq![lit_clean(t[i])] + lit_parse_from(t, i + 1) }
}

pub open spec fn lit_parse(t: Seq<char>) -> Seq<u32> { lit_parse_from(t, 0) }
