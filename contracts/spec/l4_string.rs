// L4 (witness search): paths of (term, class id) pairs found by the labeled BFS

// every word that picks, position by position, a character of the listed class leads from e0 to r
pub open spec fn path_sound(e0: RegLan, path: Seq<(RegLan, ClassId)>, r: RegLan) -> bool {
    forall|w: Seq<u32>| #![trigger quot_by(r.expr, e0.expr, w)] w.len() == path.len() && picks_path(path, w) ==> quot_by(r.expr, e0.expr, w)
}

// w[i] is a character of class path[i].1 of term path[i].0
pub open spec fn picks_path(path: Seq<(RegLan, ClassId)>, w: Seq<u32>) -> bool {
    forall|i: int| 0 <= i < path.len() && i < w.len() ==> in_class((#[trigger] path[i]).0, w[i], path[i].1)
}

// every pair names a well-formed term of the manager and a valid class of it
pub open spec fn path_valid(m: ReManager, path: Seq<(RegLan, ClassId)>) -> bool {
    forall|i: int| 0 <= i < path.len() ==> owned(m, (#[trigger] path[i]).0) && cp_valid(*path[i].0.deriv_class, path[i].1)
}

// invariant of get_string_path over the visited map
pub open spec fn gs_inv(m: ReManager, q: LabeledQueue<RegLan, ClassId>, e0: RegLan) -> bool {
    &&& mgr_wf2(m)
    &&& lq_wf(q)
    &&& q.map@.contains_key(e0)
    &&& forall|x: RegLan| #[trigger] q.map@.contains_key(x) ==> owned(m, x)
    &&& forall|x: RegLan, n: nat| #![trigger chain_len(q.map@, q.map@[x], n)] q.map@.contains_key(x) && chain_len(q.map@, q.map@[x], n)
            ==> path_sound(e0, chain_path(q.map@, q.map@[x], n), x) && path_valid(m, chain_path(q.map@, q.map@[x], n))
    &&& forall|x: RegLan| #[trigger] q.map@.contains_key(x) && !q.queue@.contains(x) ==> !lang_k(x.expr, eps()) && closed_at(q.map@.dom(), x)
}

// gs_inv while term r (popped, not nullable) is being expanded
pub open spec fn gs_frame(m: ReManager, q: LabeledQueue<RegLan, ClassId>, e0: RegLan, r: RegLan) -> bool {
    &&& mgr_wf2(m)
    &&& lq_wf(q)
    &&& q.map@.contains_key(e0)
    &&& q.map@.contains_key(r) && !q.queue@.contains(r) && !lang_k(r.expr, eps())
    &&& forall|x: RegLan| #[trigger] q.map@.contains_key(x) ==> owned(m, x)
    &&& forall|x: RegLan, n: nat| #![trigger chain_len(q.map@, q.map@[x], n)] q.map@.contains_key(x) && chain_len(q.map@, q.map@[x], n)
            ==> path_sound(e0, chain_path(q.map@, q.map@[x], n), x) && path_valid(m, chain_path(q.map@, q.map@[x], n))
    &&& forall|x: RegLan| #[trigger] q.map@.contains_key(x) && !q.queue@.contains(x) && x != r ==> !lang_k(x.expr, eps()) && closed_at(q.map@.dom(), x)
}

// the labeled queue after push(r, cid, d)
pub open spec fn lq_pushed(q2: LabeledQueue<RegLan, ClassId>, q1: LabeledQueue<RegLan, ClassId>, r: RegLan, cid: ClassId, d: RegLan) -> bool {
    if q1.map@.contains_key(d) { q2.map@ == q1.map@ && q2.queue@ == q1.queue@ }
    else { q2.map@ == q1.map@.insert(d, Edge::Pred(cid, r)) && q2.queue@ == q1.queue@.push(d) }
}
