// L1: partitions of the alphabet (oracle; set-theoretic meaning of a sorted list of disjoint intervals)
pub open spec fn cp_sorted(l: Seq<CharSet>) -> bool {
    &&& forall|i: int| 0 <= i < l.len() ==> cs_wf(#[trigger] l[i])
    &&& forall|i: int, j: int| 0 <= i < j < l.len() ==> (#[trigger] l[i]).end < (#[trigger] l[j]).start
}

// x belongs to some interval of the list
pub open spec fn cl_in(l: Seq<CharSet>, x: int) -> bool {
    exists|i: int| 0 <= i < l.len() && cs_has(#[trigger] l[i], x)
}

pub open spec fn cp_in(p: CharPartition, x: int) -> bool {
    cl_in(p.list@, x)
}

// w is the least character in no interval, or MAX_CHAR + 1 if there is none
pub open spec fn cl_witness(l: Seq<CharSet>, w: int) -> bool {
    &&& 0 <= w <= MAX_CHAR + 1
    &&& forall|x: int| 0 <= x < w ==> cl_in(l, x)
    &&& !cl_in(l, w)
}

pub open spec fn cp_wf(p: CharPartition) -> bool {
    cp_sorted(p.list@) && cl_witness(p.list@, p.comp_witness as int)
}

// the class of character x: the interval holding it, else the complementary class
pub open spec fn cp_is_class(p: CharPartition, x: int, cid: ClassId) -> bool {
    match cid {
        ClassId::Interval(i) => i < p.list@.len() && cs_has(p.list@[i as int], x),
        ClassId::Complement => !cl_in(p.list@, x),
    }
}

// x and y are equivalent for p
pub open spec fn cp_same(p: CharPartition, x: int, y: int) -> bool {
    (forall|i: int| 0 <= i < p.list@.len() ==> cs_has(#[trigger] p.list@[i], x) == cs_has(p.list@[i], y))
}

pub open spec fn cp_valid(p: CharPartition, cid: ClassId) -> bool {
    match cid {
        ClassId::Interval(i) => i < p.list@.len(),
        ClassId::Complement => exists|x: int| 0 <= x <= MAX_CHAR && !cl_in(p.list@, x),
    }
}

// the query set lies inside interval i of the list
pub open spec fn cl_covered_by(l: Seq<CharSet>, set: CharSet, i: int) -> bool {
    forall|x: int| cs_has(set, x) ==> cs_has(l[i], x)
}

pub open spec fn cl_covered_by_some(l: Seq<CharSet>, set: CharSet) -> bool {
    exists|i: int| 0 <= i < l.len() && #[trigger] cl_covered_by(l, set, i)
}

// the query set meets no interval of the list
pub open spec fn cl_disjoint_all(l: Seq<CharSet>, set: CharSet) -> bool {
    forall|x: int| cs_has(set, x) ==> !cl_in(l, x)
}
