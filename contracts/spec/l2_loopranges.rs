// L2: loop ranges as sets of naturals (oracle)
pub open spec fn lr_wf(r: LoopRange) -> bool {
    r.1.is_some() ==> r.0 <= r.1.unwrap()
}

pub open spec fn lr_has(r: LoopRange, n: int) -> bool {
    r.0 <= n && (r.1.is_some() ==> n <= r.1.unwrap())
}

// n is the sum of a member of a and a member of b
pub open spec fn in_sumset(a: LoopRange, b: LoopRange, n: int) -> bool {
    exists|x: int, y: int| #[trigger] lr_has(a, x) && #[trigger] lr_has(b, y) && x + y == n
}

// trigger-only helper: a recursive call under a quantifier cannot serve as its own trigger
pub open spec fn wit(m: int) -> bool { true }

// n is a sum of k members of r
pub open spec fn ksum(r: LoopRange, k: nat, n: int) -> bool
    decreases k,
{
    if k == 0 {
        n == 0
    } else {
        exists|m: int| #[trigger] wit(m) && ksum(r, (k - 1) as nat, m) && lr_has(r, n - m)
    }
}

// n is in the union over y in s of the y-fold sums of r
pub open spec fn in_loop_of_loop(r: LoopRange, s: LoopRange, n: int) -> bool {
    exists|y: int| 0 <= y && lr_has(s, y) && #[trigger] ksum(r, y as nat, n)
}

pub open spec fn lr_is_zero(r: LoopRange) -> bool {
    r.0 == 0 && r.1 == Some(0u32)
}

// the interval LoopRange::mul is documented to return (product of the bounds,
// point 0 when either operand is [0,0], infinite when either is infinite)
pub open spec fn lr_mul_lo(r: LoopRange, s: LoopRange) -> int {
    if lr_is_zero(r) || lr_is_zero(s) { 0 } else { r.0 * s.0 }
}

pub open spec fn lr_mul_hi(r: LoopRange, s: LoopRange) -> Option<int> {
    if lr_is_zero(r) || lr_is_zero(s) {
        Some(0int)
    } else if r.1.is_none() || s.1.is_none() {
        None
    } else {
        Some(r.1.unwrap() * s.1.unwrap())
    }
}

pub open spec fn in_mul_interval(r: LoopRange, s: LoopRange, n: int) -> bool {
    lr_mul_lo(r, s) <= n && (lr_mul_hi(r, s).is_some() ==> n <= lr_mul_hi(r, s).unwrap())
}
