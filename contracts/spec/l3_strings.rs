// L3: SMT-LIB 2.6 theory of strings over Seq<u32> and int (oracle; transcribed from the theory text)
pub open spec fn ss_len_ok(s: Seq<u32>) -> bool { s.len() <= i32::MAX }
pub open spec fn ss_good(s: Seq<u32>) -> bool { forall|i: int| 0 <= i < s.len() ==> #[trigger] s[i] <= MAX_CHAR }

// p occurs in s at position i
pub open spec fn occurs_at(p: Seq<u32>, s: Seq<u32>, i: int) -> bool {
    0 <= i && i + p.len() <= s.len() && (forall|j: int| 0 <= j < p.len() ==> s[i + j] == #[trigger] p[j])
}

// n is the least position >= k at which p occurs in s
pub open spec fn is_first_occ(p: Seq<u32>, s: Seq<u32>, k: int, n: int) -> bool {
    k <= n && occurs_at(p, s, n) && (forall|m: int| k <= m < n ==> !occurs_at(p, s, m))
}

pub open spec fn no_occ_from(p: Seq<u32>, s: Seq<u32>, k: int) -> bool {
    forall|m: int| k <= m ==> !occurs_at(p, s, m)
}

// str.substr
pub open spec fn smt_substr(s: Seq<u32>, i: int, n: int) -> Seq<u32> {
    if 0 <= i < s.len() && n > 0 {
        s.subrange(i, if i + n <= s.len() { i + n } else { s.len() as int })
    } else {
        Seq::<u32>::empty()
    }
}

// str.at(s, i) = str.substr(s, i, 1)
pub open spec fn smt_at(s: Seq<u32>, i: int) -> Seq<u32> { smt_substr(s, i, 1) }

pub open spec fn smt_prefixof(v: Seq<u32>, w: Seq<u32>) -> bool {
    v.len() <= w.len() && w.subrange(0, v.len() as int) =~= v
}

pub open spec fn smt_suffixof(v: Seq<u32>, w: Seq<u32>) -> bool {
    v.len() <= w.len() && w.subrange(w.len() - v.len(), w.len() as int) =~= v
}

// str.contains(s, t): t occurs in s
pub open spec fn smt_contains(s: Seq<u32>, t: Seq<u32>) -> bool {
    exists|n: int| occurs_at(t, s, n)
}

// str.indexof(s, t, i) == r
pub open spec fn smt_indexof_is(s: Seq<u32>, t: Seq<u32>, i: int, r: int) -> bool {
    if 0 <= i <= s.len() && !no_occ_from(t, s, i) { is_first_occ(t, s, i, r) } else { r == -1 }
}

// str.replace(s, t, t2) == r : the first occurrence of t in s (if any) is replaced by t2
pub open spec fn smt_replace_is(s: Seq<u32>, t: Seq<u32>, t2: Seq<u32>, r: Seq<u32>) -> bool {
    &&& no_occ_from(t, s, 0) ==> r == s
    &&& forall|n: int| is_first_occ(t, s, 0, n) ==> r == s.subrange(0, n) + t2 + s.subrange(n + t.len(), s.len() as int)
}

// the leftmost occurrence of p in s at or after k, or -1
pub open spec fn first_occ(p: Seq<u32>, s: Seq<u32>, k: int) -> int {
    if exists|n: int| is_first_occ(p, s, k, n) { choose|n: int| is_first_occ(p, s, k, n) } else { -1 }
}

// str.replace_all on the suffix of s that starts at k (t non-empty): left to right, non-overlapping
pub open spec fn smt_replace_all_from(s: Seq<u32>, t: Seq<u32>, t2: Seq<u32>, k: int) -> Seq<u32>
    decreases s.len() - k,
{
    let n = first_occ(t, s, k);
    if 0 <= k <= n && t.len() > 0 && n + t.len() <= s.len() {
        s.subrange(k, n) + t2 + smt_replace_all_from(s, t, t2, n + t.len())
    } else if 0 <= k <= s.len() {
        s.subrange(k, s.len() as int)
    } else {
        Seq::<u32>::empty()
    }
}

pub open spec fn smt_replace_all(s: Seq<u32>, t: Seq<u32>, t2: Seq<u32>) -> Seq<u32> {
    if t.len() == 0 { s } else { smt_replace_all_from(s, t, t2, 0) }
}

// lexicographic order: v < w
pub open spec fn lex_lt(v: Seq<u32>, w: Seq<u32>) -> bool
    decreases v.len(),
{
    if w.len() == 0 { false }
    else if v.len() == 0 { true }
    else if v[0] != w[0] { v[0] < w[0] }
    else { lex_lt(v.subrange(1, v.len() as int), w.subrange(1, w.len() as int)) }
}

pub open spec fn lex_le(v: Seq<u32>, w: Seq<u32>) -> bool { lex_lt(v, w) || v =~= w }

pub open spec fn is_digit(x: u32) -> bool { 0x30 <= x <= 0x39 }
pub open spec fn all_digits(s: Seq<u32>) -> bool { forall|i: int| 0 <= i < s.len() ==> is_digit(#[trigger] s[i]) }

// decimal value of a digit string (most significant digit first)
pub open spec fn digits_val(s: Seq<u32>) -> int
    decreases s.len(),
{
    if s.len() == 0 { 0 } else { 10 * digits_val(s.subrange(0, s.len() - 1)) + (s[s.len() - 1] - 0x30) }
}

// str.to_int
pub open spec fn smt_to_int(s: Seq<u32>) -> int {
    if s.len() > 0 && all_digits(s) { digits_val(s) } else { -1 }
}

// str.to_code / str.from_code / str.is_digit
pub open spec fn smt_to_code(s: Seq<u32>) -> int { if s.len() == 1 { s[0] as int } else { -1 } }
pub open spec fn smt_from_code(x: int) -> Seq<u32> { if 0 <= x <= MAX_CHAR { seq![x as u32] } else { Seq::<u32>::empty() } }
pub open spec fn smt_is_digit(s: Seq<u32>) -> bool { s.len() == 1 && is_digit(s[0]) }
