// L3 (printing literals): the SMT-LIB 2.6 text of a string (oracle)

pub open spec fn hex_digit(d: int) -> char {
    if 0 <= d < 10 { ((0x30 + d) as u8) as char } else { ((0x61 + d - 10) as u8) as char }
}

// the k lower-case hex digits of x (x taken modulo 16^k), most significant first
pub open spec fn hex_digits(x: int, k: int) -> Seq<char>
    decreases k,
{
    if k <= 0 { Seq::<char>::empty() } else { hex_digits(x / 16, k - 1).push(hex_digit(x % 16)) }
}

// number of hex digits of x without leading zeros (at least one)
pub open spec fn hex_len(x: int) -> int
    decreases x,
{
    if x < 16 { 1 } else { 1 + hex_len(x / 16) }
}

// text of one code point inside the body of a literal (before quotes are doubled)
pub open spec fn print_body(x: u32) -> Seq<char> {
    if 32 <= x < 127 && x != 0x5c { seq![(x as u8) as char] }
    else if x < 32 || x == 127 || x == 0x5c { seq!['\\', 'u', '{'] + hex_digits(x as int, 2) + seq!['}'] }
    else if x < 0x10000 { seq!['\\', 'u'] + hex_digits(x as int, 4) }
    else { seq!['\\', 'u', '{'] + hex_digits(x as int, hex_len(x as int)) + seq!['}'] }
}

// text of one code point as Display / char_to_smt print it: the double quote is doubled
pub open spec fn print_char(x: u32) -> Seq<char> {
    if x == 0x22 { seq!['"', '"'] } else { print_body(x) }
}

pub open spec fn print_chars(s: Seq<u32>, n: int) -> Seq<char>
    decreases n,
{
    if n <= 0 { Seq::<char>::empty() } else { print_chars(s, n - 1) + print_char(s[n - 1]) }
}

// the Display form of a string: quote, the characters, quote
pub open spec fn print_string(s: Seq<u32>) -> Seq<char> {
    seq!['"'] + print_chars(s, s.len() as int) + seq!['"']
}

// the body of a literal with doubled quotes undone, for a string printed by print_chars
pub open spec fn body_chars(s: Seq<u32>, n: int) -> Seq<char>
    decreases n,
{
    if n <= 0 { Seq::<char>::empty() } else { body_chars(s, n - 1) + print_body(s[n - 1]) }
}

// what has been written to a formatter so far (uninterpreted: std's Formatter is opaque)
pub uninterp spec fn fmt_out(f: std::fmt::Formatter) -> Seq<char>;
