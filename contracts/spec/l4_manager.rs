// L4 (manager): the hash-consing store and the manager invariant.

// every immediate sub-term of node k is a term of the store (ids index the term table)
pub open spec fn kids_owned(terms: Seq<RegLan>, k: BaseRegLan) -> bool {
    match k {
        BaseRegLan::Empty => true,
        BaseRegLan::Epsilon => true,
        BaseRegLan::Range(c) => true,
        BaseRegLan::Concat(a, b) => term_of(terms, a) && term_of(terms, b),
        BaseRegLan::Loop(a, r) => term_of(terms, a),
        BaseRegLan::Complement(a) => term_of(terms, a),
        BaseRegLan::Union(l) => forall|i: int| 0 <= i < l@.len() ==> term_of(terms, #[trigger] l@[i]),
        BaseRegLan::Inter(l) => forall|i: int| 0 <= i < l@.len() ==> term_of(terms, #[trigger] l@[i]),
    }
}

// e is the term with its id in the table
pub open spec fn term_of(terms: Seq<RegLan>, e: RegLan) -> bool {
    e.id < terms.len() && *terms[e.id as int] == *e
}

// the table of a store: dense ids, one term per distinct node (hash-consing), sub-terms inside
pub open spec fn table_ok(terms: Seq<RegLan>) -> bool {
    &&& forall|i: int| 0 <= i < terms.len() ==> (#[trigger] terms[i]).id == i
    &&& forall|i: int, j: int| 0 <= i < j < terms.len() ==> (#[trigger] terms[i]).expr != (#[trigger] terms[j]).expr
    &&& forall|i: int| 0 <= i < terms.len() ==> kids_owned(terms, (#[trigger] terms[i]).expr) && re_ok(*terms[i])
}

pub open spec fn store_ok(s: Store<RE>) -> bool {
    s.counter == s.terms@.len() && table_ok(s.terms@)
}

// terms 2j and 2j+1 denote complementary languages
pub open spec fn pair_ok(t: Seq<RegLan>, j: int) -> bool {
    forall|w: Seq<u32>| #[trigger] lang_k(t[2 * j + 1].expr, w) == (word_ok(w) && !lang_k(t[2 * j].expr, w))
}

// manager invariant: id2re mirrors the store; terms come in pairs (x, complement x) with
// consecutive ids 2j, 2j+1; the five built-in terms sit at their fixed places
pub open spec fn mgr_wf(m: ReManager) -> bool {
    let t = m.store.terms@;
    &&& store_ok(m.store)
    &&& m.id2re@ =~= t
    &&& t.len() >= 6 && t.len() % 2 == 0
    &&& forall|j: int| 0 <= j && 2 * j + 1 < t.len() ==> #[trigger] pair_ok(t, j)
    &&& *m.sigma == *t[0] && t[0].expr == BaseRegLan::Range(CharSet { start: 0, end: MAX_CHAR })
    &&& *m.empty == *t[2] && t[2].expr == BaseRegLan::Empty
    &&& *m.sigma_star == *t[3]
    &&& *m.epsilon == *t[4] && t[4].expr == BaseRegLan::Epsilon
    &&& *m.sigma_plus == *t[5]
}

pub open spec fn owned(m: ReManager, e: RegLan) -> bool { term_of(m.store.terms@, e) }

// the manager only grows: every term stays where it is
pub open spec fn mgr_extends(m2: ReManager, m1: ReManager) -> bool {
    m1.store.terms@.len() <= m2.store.terms@.len()
        && (forall|i: int| 0 <= i < m1.store.terms@.len() ==> #[trigger] m2.store.terms@[i] == m1.store.terms@[i])
        && m2.deriv_cache == m1.deriv_cache
}
