// L6 (minimizer support): partitions of [0, size) stored as a permuted segment cut into blocks

pub open spec fn bh_in(h: BlockHeader, k: int) -> bool { h.start <= k < h.end }

pub open spec fn bh_disjoint(h1: BlockHeader, h2: BlockHeader) -> bool { h1.end <= h2.start || h2.end <= h1.start }

// representation invariant of BasePartition
pub open spec fn bp_wf(p: BasePartition) -> bool {
    &&& p.segment@.len() == p.size
    &&& p.size < u32::MAX - 1
    &&& p.block@.len() >= 1
    &&& p.block@[0].start == 0 && p.block@[0].end == 0
    &&& forall|b: int| 1 <= b < p.block@.len() ==> (#[trigger] p.block@[b]).start < p.block@[b].end && p.block@[b].end <= p.size
    &&& forall|b1: int, b2: int| 1 <= b1 < p.block@.len() && 1 <= b2 < p.block@.len() && b1 != b2 ==> bh_disjoint(#[trigger] p.block@[b1], #[trigger] p.block@[b2])
    &&& forall|k: int| 0 <= k < p.size ==> (#[trigger] p.segment@[k]) < p.size
    &&& forall|k1: int, k2: int| 0 <= k1 < p.size && 0 <= k2 < p.size && k1 != k2 ==> p.segment@[k1] != p.segment@[k2]
}

// x is an element of block b
pub open spec fn bp_in(p: BasePartition, b: int, x: u32) -> bool {
    exists|k: int| bh_in(p.block@[b], k) && #[trigger] p.segment@[k] == x
}

// blocks other than i are untouched (headers and segment content)
pub open spec fn bp_others_same(p2: BasePartition, p1: BasePartition, i: int) -> bool {
    &&& p2.size == p1.size
    &&& p2.block@.len() >= p1.block@.len()
    &&& forall|b: int| 0 <= b < p1.block@.len() && b != i ==> #[trigger] p2.block@[b] == p1.block@[b]
    &&& forall|k: int| 0 <= k < p1.size && !bh_in(p1.block@[i], k) ==> #[trigger] p2.segment@[k] == p1.segment@[k]
}

// outcome of refine_block(i, p) in terms of the closure's own input/output relation
pub open spec fn bp_refined<P: Fn(u32) -> bool>(p2: BasePartition, p1: BasePartition, i: int, f: P, r: (u32, u32)) -> bool {
    &&& bp_others_same(p2, p1, i)
    &&& if r.0 == 0 {
            r.1 == i && p2.block@ == p1.block@ && (forall|x: u32| bp_in(p1, i, x) ==> #[trigger] call_ensures(f, (x,), false))
        } else if r.1 == 0 {
            r.0 == i && p2.block@ == p1.block@ && (forall|x: u32| bp_in(p1, i, x) ==> #[trigger] call_ensures(f, (x,), true))
        } else {
            &&& r.0 == i && r.1 == p1.block@.len() && p2.block@.len() == p1.block@.len() + 1
            &&& forall|x: u32| #[trigger] bp_in(p2, i, x) ==> bp_in(p1, i, x) && call_ensures(f, (x,), true)
            &&& forall|x: u32| #[trigger] bp_in(p2, r.1 as int, x) ==> bp_in(p1, i, x) && call_ensures(f, (x,), false)
            &&& forall|x: u32| #[trigger] bp_in(p1, i, x) ==> bp_in(p2, i, x) || bp_in(p2, r.1 as int, x)
        }
    &&& (r.0 == 0 || r.1 == 0) ==> (forall|x: u32| bp_in(p2, i, x) == #[trigger] bp_in(p1, i, x))
    &&& forall|b: int, x: u32| 0 <= b < p1.block@.len() && b != i ==> bp_in(p2, b, x) == #[trigger] bp_in(p1, b, x)
}

// representation invariant of Partition: block_id is the inverse of the block structure
pub open spec fn pt_wf(p: Partition) -> bool {
    &&& bp_wf(p.base)
    &&& p.block_id@.len() == p.base.size
    &&& forall|x: int| 0 <= x < p.base.size ==> 1 <= #[trigger] p.block_id@[x] < p.base.block@.len()
    &&& forall|x: u32| x < p.base.size ==> #[trigger] bp_in(p.base, p.block_id@[x as int] as int, x)
    &&& forall|b: int, k: int| 1 <= b < p.base.block@.len() && #[trigger] bh_in(p.base.block@[b], k) ==> p.block_id@[p.base.segment@[k] as int] == b
}

// block id of x
pub open spec fn pt_bid(p: Partition, x: u32) -> u32 { p.block_id@[x as int] }

// outcome of Partition::refine_block(i, ..) where rel(x, r) relates an element to the answer the predicate gave for it
pub open spec fn pt_refined(p2: Partition, p1: Partition, i: int, rel: spec_fn(u32, bool) -> bool, r: (u32, u32)) -> bool {
    &&& p2.base.size == p1.base.size
    &&& if r.0 == 0 || r.1 == 0 {
            &&& p2.block_id@ == p1.block_id@
            &&& p2.base.block@.len() == p1.base.block@.len()
            &&& r.0 == 0 ==> r.1 == i && (forall|x: u32| x < p1.base.size && #[trigger] pt_bid(p1, x) == i ==> rel(x, false))
            &&& r.0 != 0 ==> r.0 == i && (forall|x: u32| x < p1.base.size && #[trigger] pt_bid(p1, x) == i ==> rel(x, true))
        } else {
            &&& r.0 == i && r.1 == p1.base.block@.len() && p2.base.block@.len() == p1.base.block@.len() + 1
            &&& forall|x: u32| x < p1.base.size && pt_bid(p1, x) != i ==> #[trigger] pt_bid(p2, x) == pt_bid(p1, x)
            &&& forall|x: u32| x < p1.base.size && pt_bid(p1, x) == i ==>
                    (#[trigger] pt_bid(p2, x) == i && rel(x, true)) || (pt_bid(p2, x) == r.1 && rel(x, false))
        }
}

pub open spec fn rel_of<P: Fn(u32) -> bool>(f: P) -> spec_fn(u32, bool) -> bool {
    |x: u32, r: bool| call_ensures(f, (x,), r)
}

// the predicate used by refine_block_with_fun: "f(y) lies in block b of p1"
pub open spec fn rel_fun<F: Fn(u32) -> u32>(f: F, p1: Partition, b: u32) -> spec_fn(u32, bool) -> bool {
    |y: u32, r: bool| exists|v: u32| #[trigger] call_ensures(f, (y,), v) && v < p1.base.size && r == (pt_bid(p1, v) == b)
}

// call_requires / call_ensures through a reference (so that a closure's contract can mention a captured function without moving it)
pub open spec fn fn_req<F: Fn(u32) -> u32>(f: &F, y: u32) -> bool { call_requires(*f, (y,)) }
pub open spec fn fn_ens<F: Fn(u32) -> u32>(f: &F, y: u32, v: u32) -> bool { call_ensures(*f, (y,), v) }

// bp_refined stated over a relation rel(x, answer) instead of a closure
pub open spec fn bp_refined_rel(p2: BasePartition, p1: BasePartition, i: int, rel: spec_fn(u32, bool) -> bool, r: (u32, u32)) -> bool {
    &&& p2.size == p1.size
    &&& if r.0 == 0 {
            r.1 == i && p2.block@.len() == p1.block@.len() && (forall|x: u32| bp_in(p1, i, x) ==> #[trigger] rel(x, false))
        } else if r.1 == 0 {
            r.0 == i && p2.block@.len() == p1.block@.len() && (forall|x: u32| bp_in(p1, i, x) ==> #[trigger] rel(x, true))
        } else {
            &&& r.0 == i && r.1 == p1.block@.len() && p2.block@.len() == p1.block@.len() + 1
            &&& forall|x: u32| #[trigger] bp_in(p2, i, x) ==> bp_in(p1, i, x) && rel(x, true)
            &&& forall|x: u32| #[trigger] bp_in(p2, r.1 as int, x) ==> bp_in(p1, i, x) && rel(x, false)
            &&& forall|x: u32| #[trigger] bp_in(p1, i, x) ==> bp_in(p2, i, x) || bp_in(p2, r.1 as int, x)
        }
    &&& (r.0 == 0 || r.1 == 0) ==> (forall|x: u32| bp_in(p2, i, x) == #[trigger] bp_in(p1, i, x))
    &&& forall|b: int, x: u32| 0 <= b < p1.block@.len() && b != i ==> bp_in(p2, b, x) == #[trigger] bp_in(p1, b, x)
}

// the same through a reference (for closure contracts, which must not move what they capture)
pub open spec fn pt_wf_r(p: &Partition) -> bool { pt_wf(*p) }
pub open spec fn pt_size_r(p: &Partition) -> usize { p.base.size }
pub open spec fn pt_bid_r(p: &Partition, x: u32) -> u32 { pt_bid(*p, x) }
