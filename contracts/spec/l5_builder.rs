// L5 (builder side): what the caller of AutomatonBuilder specified (oracle)
// a transition list ts = [(label, target)] and a declared default d

// character c is covered by some label
pub open spec fn tr_covered(ts: Seq<(CharSet, usize)>, c: int) -> bool {
    exists|i: int| 0 <= i < ts.len() && cs_has((#[trigger] ts[i]).0, c)
}

// the caller assigns successor y to character c: an explicit transition covering c, else the default
pub open spec fn tr_maps(ts: Seq<(CharSet, usize)>, d: Option<usize>, c: int, y: int) -> bool {
    (exists|i: int| 0 <= i < ts.len() && cs_has((#[trigger] ts[i]).0, c) && ts[i].1 == y)
        || (!tr_covered(ts, c) && d == Some(y as usize) && 0 <= y <= usize::MAX)
}

// some character is given two different successors
pub open spec fn tr_conflict(ts: Seq<(CharSet, usize)>) -> bool {
    exists|i: int, j: int, c: int| 0 <= i < ts.len() && 0 <= j < ts.len() && #[trigger] cs_has(ts[i].0, c) && #[trigger] cs_has(ts[j].0, c) && ts[i].1 != ts[j].1
}

// every character has a successor
pub open spec fn tr_complete(ts: Seq<(CharSet, usize)>, d: Option<usize>) -> bool {
    d.is_some() || (forall|c: int| 0 <= c <= MAX_CHAR ==> tr_covered(ts, c))
}

pub open spec fn tr_labels_wf(ts: Seq<(CharSet, usize)>) -> bool {
    forall|i: int| 0 <= i < ts.len() ==> cs_wf((#[trigger] ts[i]).0)
}

pub open spec fn tr_disjoint(ts: Seq<(CharSet, usize)>) -> bool {
    forall|i: int, j: int| 0 <= i < j < ts.len() ==> cs_disjoint((#[trigger] ts[i]).0, (#[trigger] ts[j]).0)
}

pub open spec fn tr_targets_below(ts: Seq<(CharSet, usize)>, n: int) -> bool {
    forall|i: int| 0 <= i < ts.len() ==> (#[trigger] ts[i]).1 < n
}

// ---- automaton side ----
pub open spec fn st_wf(s: State, n: int) -> bool {
    &&& cp_wf(s.classes)
    &&& s.successor@.len() == s.classes.list@.len()
    &&& forall|i: int| 0 <= i < s.successor@.len() ==> #[trigger] s.successor@[i] < n
    &&& s.default_successor.is_some() == cp_valid(s.classes, ClassId::Complement)
    &&& s.default_successor.is_some() ==> s.default_successor.unwrap() < n
}

pub open spec fn count_final(states: Seq<State>, k: int) -> int
    decreases k,
{
    if k <= 0 { 0 } else { count_final(states, k - 1) + (if states[k - 1].is_final { 1int } else { 0int }) }
}

pub open spec fn dfa_wf(a: Automaton) -> bool {
    &&& a.num_states == a.states@.len()
    &&& a.initial_state < a.num_states
    &&& forall|q: int| 0 <= q < a.states@.len() ==> (#[trigger] a.states@[q]).id == q && st_wf(a.states@[q], a.states@.len() as int)
    &&& a.num_final_states == count_final(a.states@, a.states@.len() as int)
}

// the automaton sends character c from state s to y
pub open spec fn st_maps(s: State, c: int, y: int) -> bool {
    (exists|i: int| 0 <= i < s.classes.list@.len() && cs_has(#[trigger] s.classes.list@[i], c) && s.successor@[i] == y)
        || (!cl_in(s.classes.list@, c) && s.default_successor == Some(y as usize) && 0 <= y <= usize::MAX)
}
