// R7 shims (ASSUMED std contracts) shared by the minimizer's units
// vec![0; n].into_boxed_slice()
#[verifier::external_body]
pub fn vx_boxed_zeros_min(n: usize) -> (v: Box<[u32]>)
    ensures v@.len() == n, forall|i: int| 0 <= i < n ==> v@[i] == 0,
{ vec![0; n].into_boxed_slice() }

// vec![1; n].into_boxed_slice()
#[verifier::external_body]
pub fn vx_boxed_ones_min(n: usize) -> (v: Box<[u32]>)
    ensures v@.len() == n, forall|i: int| 0 <= i < n ==> v@[i] == 1,
{ vec![1; n].into_boxed_slice() }

// <[T]>::swap
pub assume_specification<T>[ <[T]>::swap ](s: &mut [T], a: usize, b: usize)
    requires a < old(s)@.len(), b < old(s)@.len(),
    ensures final(s)@ == old(s)@.update(a as int, old(s)@[b as int]).update(b as int, old(s)@[a as int]);
