// L0: characters and intervals (oracle; written from the set-theoretic meaning)

pub open spec fn cs_wf(c: CharSet) -> bool {
    c.start <= c.end && c.end <= MAX_CHAR
}

pub open spec fn cs_has(c: CharSet, x: int) -> bool {
    c.start <= x && x <= c.end
}

// intersection of a sequence of intervals, as a predicate on characters
pub open spec fn cs_all_have_upto(a: Seq<CharSet>, k: int, x: int) -> bool {
    forall|i: int| 0 <= i < k ==> cs_has(#[trigger] a[i], x)
}

pub open spec fn cs_all_have(a: Seq<CharSet>, x: int) -> bool {
    cs_all_have_upto(a, a.len() as int, x)
}
