// SMT-LIB's alphabet bound (oracle side; the crate's own constant is checked against it in the strings unit)
pub const MAX_CHAR: u32 = 0x2FFFF;
