// L4 (labeled queues): BFS with predecessor edges

// the chain of predecessor edges from `e` back to the root has exactly n edges
pub open spec fn chain_len<T, L>(m: Map<T, Edge<T, L>>, e: Edge<T, L>, n: nat) -> bool
    decreases n,
{
    match e {
        Edge::Empty => n == 0,
        Edge::Pred(l, p) => n > 0 && m.contains_key(p) && chain_len(m, m[p], (n - 1) as nat),
    }
}

// the path (node, label) ... from the root to the target of edge e, given the length n of its chain
pub open spec fn chain_path<T, L>(m: Map<T, Edge<T, L>>, e: Edge<T, L>, n: nat) -> Seq<(T, L)>
    decreases n,
{
    match e {
        Edge::Empty => Seq::empty(),
        Edge::Pred(l, p) => if n > 0 { chain_path(m, m[p], (n - 1) as nat).push((p, l)) } else { Seq::empty() },
    }
}

// the labels alone along that path
pub open spec fn chain_labels<T, L>(m: Map<T, Edge<T, L>>, e: Edge<T, L>, n: nat) -> Seq<L>
    decreases n,
{
    match e {
        Edge::Empty => Seq::empty(),
        Edge::Pred(l, p) => if n > 0 { chain_labels(m, m[p], (n - 1) as nat).push(l) } else { Seq::empty() },
    }
}

// every visited node has a finite chain back to the root; pending nodes have been visited
pub open spec fn lq_wf<T, L>(q: LabeledQueue<T, L>) -> bool {
    &&& forall|x: T| #[trigger] q.map@.contains_key(x) ==> exists|n: nat| chain_len(q.map@, q.map@[x], n)
    &&& forall|i: int| 0 <= i < q.queue@.len() ==> q.map@.contains_key(#[trigger] q.queue@[i])
}
