// L4 (matching): leftmost / shortest matches of a regular expression inside a string (SMT-LIB
// str.replace_re and str.replace_re_all), stated over the denotation lang_k

// s[i..j) is a match of k (the empty match counts only when allow_empty)
pub open spec fn is_match(k: BaseRegLan, s: Seq<u32>, i: int, j: int, allow_empty: bool) -> bool {
    0 <= i <= j <= s.len() && (i < j || allow_empty) && lang_k(k, s.subrange(i, j))
}

// (i, j) is the leftmost match starting at or after `from`, and the shortest one at that position
pub open spec fn first_match(k: BaseRegLan, s: Seq<u32>, from: int, i: int, j: int, allow_empty: bool) -> bool {
    from <= i && is_match(k, s, i, j, allow_empty)
        && (forall|i2: int, j2: int| #![trigger is_match(k, s, i2, j2, allow_empty)]
            from <= i2 && is_match(k, s, i2, j2, allow_empty) ==> i < i2 || (i == i2 && j <= j2))
}

pub open spec fn no_match_from(k: BaseRegLan, s: Seq<u32>, from: int, allow_empty: bool) -> bool {
    forall|i2: int, j2: int| #![trigger is_match(k, s, i2, j2, allow_empty)] from <= i2 ==> !is_match(k, s, i2, j2, allow_empty)
}

// str.replace_re: the leftmost shortest match (possibly empty) is replaced by t; s if there is none
pub open spec fn replace_re_is(k: BaseRegLan, s: Seq<u32>, t: Seq<u32>, out: Seq<u32>) -> bool {
    (no_match_from(k, s, 0, true) ==> out == s)
        && (forall|i: int, j: int| #![trigger first_match(k, s, 0, i, j, true)]
            first_match(k, s, 0, i, j, true) ==> out == s.subrange(0, i) + t + s.subrange(j, s.len() as int))
}

pub open spec fn has_first_match(k: BaseRegLan, s: Seq<u32>, from: int) -> bool {
    exists|p: (int, int)| #[trigger] first_match(k, s, from, p.0, p.1, false)
}

// str.replace_re_all: scanning left to right from `from`, every leftmost shortest NON-EMPTY match
// is replaced by t and the scan continues after it
pub open spec fn replace_re_all_from(k: BaseRegLan, s: Seq<u32>, t: Seq<u32>, from: int) -> Seq<u32>
    decreases s.len() - from,
{
    if 0 <= from <= s.len() {
        if has_first_match(k, s, from) {
            let p = choose|p: (int, int)| #[trigger] first_match(k, s, from, p.0, p.1, false);
            if from < p.1 <= s.len() {
                s.subrange(from, p.0) + t + replace_re_all_from(k, s, t, p.1)
            } else {
                s.subrange(from, s.len() as int)
            }
        } else {
            s.subrange(from, s.len() as int)
        }
    } else {
        Seq::empty()
    }
}
