// L6 (minimizer support): FastSet, a sparse set of integers below `max`

pub open spec fn fs_wf(s: FastSet) -> bool {
    &&& s.pos@.len() == s.max
    &&& s.elem@.len() == s.max
    &&& s.size <= s.max
    &&& forall|k: int| 0 <= k < s.size ==> (#[trigger] s.elem@[k]) < s.max && s.pos@[s.elem@[k] as int] == k
}

// x is a member
pub open spec fn fs_has(s: FastSet, x: u32) -> bool {
    x < s.max && s.pos@[x as int] < s.size && s.elem@[s.pos@[x as int] as int] == x
}

// the members are exactly elem[0 .. size), without repetition
pub proof fn lemma_fs_members(s: FastSet)
    requires fs_wf(s),
    ensures forall|k: int| 0 <= k < s.size ==> fs_has(s, #[trigger] s.elem@[k]),
        forall|x: u32| fs_has(s, x) ==> 0 <= s.pos@[x as int] < s.size && s.elem@[s.pos@[x as int] as int] == x,
        forall|k1: int, k2: int| 0 <= k1 < s.size && 0 <= k2 < s.size && k1 != k2 ==> s.elem@[k1] != s.elem@[k2],
{
    assert forall|k1: int, k2: int| 0 <= k1 < s.size && 0 <= k2 < s.size && k1 != k2 implies s.elem@[k1] != s.elem@[k2] by {
        if s.elem@[k1] == s.elem@[k2] { assert(s.pos@[s.elem@[k1] as int] == k1); assert(s.pos@[s.elem@[k2] as int] == k2); }
    }
}

// a set that does not hold x (x < max) is not full
pub proof fn lemma_fs_full(s: FastSet, x: u32)
    requires fs_wf(s), x < s.max, !fs_has(s, x),
    ensures s.size < s.max,
{
    lemma_fs_members(s);
    let q = Seq::new(s.size as nat + 1, |k: int| if k < s.size { s.elem@[k] as int } else { x as int });
    assert forall|k1: int, k2: int| 0 <= k1 < q.len() && 0 <= k2 < q.len() && k1 != k2 implies q[k1] != q[k2] by {
        if k1 < s.size && k2 < s.size { assert(s.elem@[k1] != s.elem@[k2]); }
        else if k1 < s.size { assert(fs_has(s, s.elem@[k1])); }
        else if k2 < s.size { assert(fs_has(s, s.elem@[k2])); }
    }
    lemma_pigeonhole(q, s.max as int);
}
