// L4 (derivatives): the manager invariant including the derivative cache

// m2's term table extends m1's and every cached derivative of m1 is still cached, unchanged, in m2
pub open spec fn grows(m2: ReManager, m1: ReManager) -> bool {
    m1.store.terms@.len() <= m2.store.terms@.len()
        && (forall|i: int| 0 <= i < m1.store.terms@.len() ==> #[trigger] m2.store.terms@[i] == m1.store.terms@[i])
        && cache_stable(m2, m1)
}

pub open spec fn cache_stable(m2: ReManager, m1: ReManager) -> bool {
    forall|k: DerivKey| #[trigger] m1.deriv_cache@.contains_key(k) ==> m2.deriv_cache@.contains_key(k) && m2.deriv_cache@[k] == m1.deriv_cache@[k]
}

// the manager's table of derivatives records y as the derivative of x for class cid
pub open spec fn tderiv(m: ReManager, x: RegLan, cid: ClassId, y: RegLan) -> bool {
    m.deriv_cache@.contains_key(DerivKey(x, cid)) && m.deriv_cache@[DerivKey(x, cid)] == y
}

// character x belongs to class cid of term e
pub open spec fn in_class(e: RegLan, x: u32, cid: ClassId) -> bool {
    x <= MAX_CHAR && cp_is_class(*e.deriv_class, x as int, cid)
}

// d is the derivative of e with respect to EVERY character of class cid
pub open spec fn is_class_deriv(d: RegLan, e: RegLan, cid: ClassId) -> bool {
    forall|x: u32, w: Seq<u32>| #![trigger quot(e.expr, x, w)] in_class(e, x, cid) ==> lang_k(d.expr, w) == quot(e.expr, x, w)
}

pub open spec fn cache_ok(m: ReManager) -> bool {
    forall|key: DerivKey| #[trigger] m.deriv_cache@.contains_key(key) ==>
        owned(m, key.0) && cp_valid(*key.0.deriv_class, key.1) && owned(m, m.deriv_cache@[key]) && is_class_deriv(m.deriv_cache@[key], key.0, key.1)
}

pub open spec fn mgr_wf2(m: ReManager) -> bool {
    mgr_wf(m) && cache_ok(m)
}

// d is the derivative of e with respect to character c
pub open spec fn is_deriv(d: RegLan, e: RegLan, c: u32) -> bool {
    forall|w: Seq<u32>| #![trigger lang_k(d.expr, w)] #![trigger quot(e.expr, c, w)] lang_k(d.expr, w) == quot(e.expr, c, w)
}
