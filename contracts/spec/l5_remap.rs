// L5 (renumbering states): a StateMapping keeps some states (old_id[j] is kept and becomes j)
// and sends every old state i to the new state new_id[i]

pub open spec fn map_ok(r: StateMapping, n_old: int) -> bool {
    &&& r.new_id@.len() == n_old
    &&& forall|i: int| 0 <= i < n_old ==> #[trigger] r.new_id@[i] < r.old_id@.len()
    &&& forall|j: int| 0 <= j < r.old_id@.len() ==> #[trigger] r.old_id@[j] < n_old && r.new_id@[r.old_id@[j] as int] == j
}

// s2 is state s1 with every target renumbered by new_id (same classes, same finality)
pub open spec fn st_remapped(s2: State, s1: State, r: StateMapping) -> bool {
    &&& s2.id == r.new_id@[s1.id as int]
    &&& s2.is_final == s1.is_final
    &&& s2.classes == s1.classes
    &&& s2.successor@.len() == s1.successor@.len()
    &&& forall|k: int| 0 <= k < s1.successor@.len() ==> #[trigger] s2.successor@[k] == r.new_id@[s1.successor@[k] as int]
    &&& s2.default_successor == (match s1.default_successor { Some(d) => Some(r.new_id@[d as int]), None => None })
}

// a2 is a1 renumbered by r: new state j is the remapped old state old_id[j]
pub open spec fn aut_remapped(a2: Automaton, a1: Automaton, r: StateMapping) -> bool {
    &&& a2.states@.len() == r.old_id@.len()
    &&& a2.num_states == r.old_id@.len()
    &&& a2.initial_state == r.new_id@[a1.initial_state as int]
    &&& forall|j: int| 0 <= j < r.old_id@.len() ==> st_remapped(#[trigger] a2.states@[j], a1.states@[r.old_id@[j] as int], r)
}

// state q is reached from the initial state by some word
pub open spec fn is_reachable(a: Automaton, q: int) -> bool {
    exists|w: Seq<u32>| ss_good(w) && #[trigger] run(a, a.initial_state as int, w) == q
}

// old state q is kept by the mapping (it represents itself)
pub open spec fn kept(r: StateMapping, q: int) -> bool {
    0 <= q < r.new_id@.len() && r.old_id@[r.new_id@[q] as int] == q
}

// every state of s is a valid id and s is closed under the transition function
pub open spec fn closed_states(a: Automaton, s: Set<usize>) -> bool {
    &&& forall|x: usize| #[trigger] s.contains(x) ==> x < a.states@.len()
    &&& forall|x: usize, c: u32| #![trigger s.contains(x), delta(a, x as int, c as int)] s.contains(x) && c <= MAX_CHAR ==> s.contains(delta(a, x as int, c as int) as usize)
}

// ---- the combined character partition and the compiled successor table ----

// p refines the class partition of every state and covers exactly the characters some state mentions
pub open spec fn is_combined(p: CharPartition, a: Automaton) -> bool {
    &&& cp_wf(p)
    &&& forall|q: int| 0 <= q < a.states@.len() ==> refines(p.list@, (#[trigger] a.states@[q]).classes.list@)
    &&& forall|x: int| #[trigger] cl_in(p.list@, x) == (exists|q: int| 0 <= q < a.states@.len() && cl_in((#[trigger] a.states@[q]).classes.list@, x))
}

// character c belongs to class number j of p (the classes are the intervals in order, then the complement)
pub open spec fn in_class_no(p: CharPartition, c: int, j: int) -> bool {
    0 <= c <= MAX_CHAR && (if j < p.list@.len() { 0 <= j && cs_has(p.list@[j], c) } else { j == p.list@.len() && !cl_in(p.list@, c) })
}

// v holds one character of each class of p, in class order
pub open spec fn alphabet_of(p: CharPartition, v: Seq<u32>) -> bool {
    &&& v.len() == p.list@.len() + (if cp_valid(p, ClassId::Complement) { 1int } else { 0int })
    &&& forall|j: int| 0 <= j < v.len() ==> in_class_no(p, (#[trigger] v[j]) as int, j)
}

// character c does not fall back on the default successor of state s
pub open spec fn cl_or_nodefault(s: State, c: int) -> bool {
    !(s.default_successor.is_some() && !cl_in(s.classes.list@, c))
}
