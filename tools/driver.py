#!/usr/bin/env python3
"""check driver: extract -> assemble -> verus -> classify -> evidence.

Exit codes: 0 property held on everything explored (possibly with KNOWN-FINDING
lines); 1 VIOLATION (an obligation that is discharged on the pinned tree fails);
2 INCONCLUSIVE (contract drift, front-end error, resource limit, vacuity
control tripped) - never a VIOLATION line.
"""
import os
import sys
import re
import json
import time
import shutil
import hashlib
import subprocess
import concurrent.futures as cf
import threading

ASM_LOCK = threading.Lock()

TOOLS = os.path.dirname(os.path.abspath(__file__))
VERIF = os.path.dirname(TOOLS)
sys.path.insert(0, TOOLS)
import assemble as asm

BUILD = os.environ.get('VERIF_BUILD_DIR') or os.path.join(VERIF, 'build')
EVID = os.environ.get('VERIF_EVIDENCE_DIR') or os.path.join(VERIF, 'evidence')
REPLAYS = os.path.join(VERIF, 'replays')
PROPS = json.load(open(os.path.join(VERIF, 'contracts', 'properties.json')))
VERUS = shutil.which('verus') or '/opt/veriftools/verus/verus'


def load_standins():
    try:
        return json.load(open(os.path.join(VERIF, 'contracts', 'standins.json')))
    except Exception:
        return []


def standin_sha(e):
    """hash of the current text (or derive attributes) of a crate item that a stand-in represents"""
    try:
        import rsitems
        sf = rsitems.SourceFile(os.path.join(asm.REPO_SRC, e['file']))
        it = sf.find(e['item'])
        txt = sf.text(it) if e.get('what') == 'text' else '\n'.join(it.attrs)
        return rsitems.sha(txt)[:16]
    except Exception as ex:
        return 'missing (%s)' % str(ex)[:60]


def load_known():
    p = os.path.join(VERIF, 'known_findings.json')
    if os.path.exists(p):
        return json.load(open(p))
    return {'open': [], 'fixed': []}


def unit_closure(units):
    """units plus the units they import (use-unit), exporters first."""
    order = []
    seen = set()

    def visit(u):
        if u in seen:
            return
        seen.add(u)
        txt = open(os.path.join(VERIF, 'contracts', u + '.vt')).read()
        for m in re.finditer(r'^\s*//@ use-unit (\S+)', txt, re.M):
            visit(m.group(1))
        order.append(u)
    for u in units:
        visit(u)
    return order


def run_verus(path, rlimit, seed, extra=None, timeout=900, multiple_errors=4):
    cmd = [VERUS, os.path.basename(path), '--error-format=json', '--output-json', '--time-expanded',
           '--rlimit', str(rlimit), '--multiple-errors', str(multiple_errors), '--triggers-mode', 'silent']
    if seed:
        cmd += ['--smt-option', 'smt.random_seed=%d' % seed, '--smt-option', 'sat.random_seed=%d' % seed]
    if extra:
        cmd += extra
    t0 = time.time()
    try:
        p = subprocess.run(cmd, cwd=os.path.dirname(path), capture_output=True, text=True, timeout=timeout)
        out, err, rc = p.stdout, p.stderr, p.returncode
    except subprocess.TimeoutExpired as e:
        out, err, rc = '', 'TIMEOUT', 124
    wall = time.time() - t0
    diags = []
    raw = []
    for l in err.split('\n'):
        l = l.rstrip()
        if l.startswith('{'):
            try:
                diags.append(json.loads(l))
                continue
            except Exception:
                pass
        if l:
            raw.append(l)
    res = None
    try:
        res = json.loads(out)
    except Exception:
        pass
    return {'cmd': ' '.join(cmd), 'rc': rc, 'json': res, 'diags': diags, 'raw': raw, 'wall': wall}


def fn_breakdown(res):
    fb = {}
    try:
        for m in res['json']['times-ms']['smt']['smt-run-module-times']:
            for f in m.get('function-breakdown', []):
                name = f['function'].split('::', 1)[1] if '::' in f['function'] else f['function']
                e = fb.setdefault(name, {'success': True, 'time_ms': 0, 'rlimit': 0, 'mode': f.get('mode:', f.get('mode'))})
                e['success'] = e['success'] and bool(f['success'])
                e['time_ms'] += f.get('time', 0)
                e['rlimit'] += f.get('rlimit', 0)
    except Exception:
        pass
    return fb


def name_match(nm, k):
    """does breakdown/diagnostic name k denote contract fn nm?  Verus prints nested fns of
    methods as `impl&%N::method::nested` (no type name)."""
    if k == nm or k.endswith('::' + nm):
        return True
    ks = k.split('::')
    ns = nm.split('::')
    if len(ks) == len(ns) and len(ns) >= 3 and ks[0].startswith('impl&%') and ks[1:] == ns[1:]:
        return True
    return False


# items that a template renames in the verified text (`as=`): source path -> name Verus prints
try:
    RENAMES = json.load(open(os.path.join(VERIF, 'contracts', 'renames.json')))
except Exception:
    RENAMES = {}


def verus_name(meta_path):
    """'character_sets.rs::CharSet::inter' -> name as Verus prints it (sans crate)."""
    if meta_path in RENAMES:
        return RENAMES[meta_path]
    p = meta_path.split('::', 1)[1]
    segs = asm.rsitems.split_path(p)
    out = []
    for s in segs:
        if s.startswith('impl ') or s.startswith('impl<'):
            k = asm.rsitems.strip_generics(re.sub(r'^impl\s*(<[^>]*>)?\s*', '', s))
            if ' for ' in k:
                tr, ty = k.split(' for ')
                out.append(ty)   # Verus prints trait impl fns as `Type::fn` too (checked at run time)
            else:
                out.append(k)
        else:
            out.append(s.split(':', 1)[1] if ':' in s else s)
    return '::'.join(out)


class UnitRun:
    def __init__(self, unit):
        self.unit = unit
        self.asm = None
        self.drift = None
        self.main = None
        self.vac = None
        self.path = None


def process_unit(unit, rlimit, seed, do_vacuity):
    ur = UnitRun(unit)
    ur.skipped = []
    ASM_LOCK.acquire()
    for lenient in (False, True):
        try:
            asm.LENIENT[0] = lenient
            del asm.SKIPPED[:]
            a = asm.assemble(unit)
            ur.asm = a
            ur.skipped = list(asm.SKIPPED)
            path = os.path.join(BUILD, unit + '.rs')
            with open(path, 'w') as f:
                f.write(a.text)
            ur.path = path
            if do_vacuity:
                av = asm.assemble(unit, vacuity=True)
                vpath = os.path.join(BUILD, unit + '__vac.rs')
                with open(vpath, 'w') as f:
                    f.write(av.text)
                ur.vac_text = av.text
                ur.vpath = vpath
            ur.drift = None
            break
        except asm.Drift as e:
            ur.drift = str(e)
        except asm.rsitems.LexError as e:
            ur.drift = 'lexer: ' + str(e)
            break
        except Exception as e:
            ur.drift = 'assembler: %r' % (e,)
        finally:
            asm.LENIENT[0] = False
    ASM_LOCK.release()
    if ur.drift:
        return ur
    with cf.ThreadPoolExecutor(max_workers=2) as ex:
        fm = ex.submit(run_verus, path, rlimit, seed)
        fv = ex.submit(run_verus, ur.vpath, 3, seed, None, 300, 0) if do_vacuity else None
        ur.main = fm.result()
        ur.vac = fv.result() if fv else None
    return ur


def diag_function(spans, diag):
    """fn name enclosing the primary span of a diagnostic"""
    prim = [s for s in diag.get('spans', []) if s.get('is_primary')] or diag.get('spans', [])
    names = []
    for s in diag.get('spans', []):
        ln = s['line_start']
        best = None
        for l0, l1, nm in spans:
            if l0 <= ln <= l1 and (best is None or l1 - l0 < best[1] - best[0]):
                best = (l0, l1, nm)
        if best:
            names.append((s.get('is_primary'), best[2], s))
    return names


def clause_name_at(text_lines, line):
    if 1 <= line <= len(text_lines):
        m = re.search(r'@ob\s+(\S+)', text_lines[line - 1])
        if m:
            return m.group(1)
    return None


def classify(ur):
    """Returns dict: status in ok|drift|frontend|resource|fail, failures=[...]"""
    out = {'unit': ur.unit, 'status': 'ok', 'failures': [], 'notes': []}
    if ur.drift:
        out['status'] = 'drift'
        out['notes'].append(ur.drift)
        return out
    m = ur.main
    if m['rc'] == 124:
        out['status'] = 'resource'
        out['notes'].append('verus timed out')
        return out
    if m['json'] is None:
        out['status'] = 'frontend'
        out['notes'].append('no json from verus: ' + ' | '.join(m['raw'][:5]))
        return out
    vr = m['json'].get('verification-results', {})
    fb = fn_breakdown(m)
    out['breakdown'] = fb
    errs = [d for d in m['diags'] if d.get('level') == 'error' and not d.get('message', '').startswith('aborting due to')]
    if vr.get('success'):
        return out
    rustc_errs = [d for d in errs if d.get('code')]
    # no verification error counted although the run failed: the front end (parser, type checker) stopped it
    no_verif_err = (not vr.get('success')) and vr.get('errors', 0) == 0
    if vr.get('encountered-vir-error') or 'verified' not in vr or rustc_errs or no_verif_err:
        out['status'] = 'frontend'
        out['notes'] += [d.get('message', '') + ' @' + ','.join('%d' % s['line_start'] for s in d.get('spans', [])[:1]) for d in errs[:6]]
        return out
    text = open(ur.path).read()
    lines = text.split('\n')
    spans = asm.locate_functions(text)
    resource = False
    for d in errs:
        msg = d.get('message', '')
        if 'rlimit' in msg.lower() or 'resource limit' in msg.lower() or 'timed out' in msg.lower():
            resource = True
        fns = diag_function(spans, d)
        ob = None
        for s in d.get('spans', []):
            for ln in range(s['line_start'], s.get('line_end', s['line_start']) + 1):
                nm = clause_name_at(lines, ln)
                if nm:
                    ob = nm
                    break
        # the function being verified is the one containing the non-contract span
        # (call-site / body); for postconditions both spans are in the same fn.
        body_fn = None
        for prim, nm, s in fns:
            lab = (s.get('label') or '')
            if 'failed precondition' in lab:
                continue
            body_fn = nm
        if body_fn is None and fns:
            body_fn = fns[0][1]
        callee_pre = None
        for prim, nm, s in fns:
            if 'failed precondition' in (s.get('label') or ''):
                callee_pre = nm
        callee_is_proof = bool(callee_pre) and bool(re.search(r'\bproof\s+fn\s+%s\b' % re.escape(callee_pre.split('::')[-1]), text))
        out['failures'].append({'function': body_fn, 'message': msg, 'obligation': ob, 'callee': callee_pre, 'callee_is_proof': callee_is_proof,
                                'resource': ('rlimit' in msg.lower() or 'resource limit' in msg.lower()),
                                'rendered': d.get('rendered', '')})
    failed_fns = [n for n, e in fb.items() if not e['success']]
    out['failed_functions'] = failed_fns
    if resource and all(f['resource'] for f in out['failures']):
        out['status'] = 'resource'
    else:
        out['status'] = 'fail'
    return out


def check_vacuity(ur, meta_fns):
    """Every `<fn>__vac` clone and the canary must FAIL.  Returns list of problems."""
    probs = []
    v = ur.vac
    if v is None:
        return probs
    if v['json'] is None or 'verified' not in v['json'].get('verification-results', {}):
        msgs = [d.get('message', '') for d in v['diags'] if d.get('level') == 'error'][:3]
        probs.append('vacuity run did not reach verification: ' + '; '.join(msgs))
        return probs
    fb = fn_breakdown(v)
    can = [n for n in fb if n.endswith('vx_canary')]
    if not can or fb[can[0]]['success']:
        probs.append('canary `ensures false` was not rejected')
    vac = {n: e for n, e in fb.items() if re.search(r'__vac\d*$', n) or re.search(r'__vac\d*::', n)}
    if not vac:
        probs.append('no vacuity clones were checked')
    for n, e in vac.items():
        if re.search(r'__vac\d*::', n):
            continue
        if e['success']:
            probs.append('vacuous contract: %s verifies with `ensures false`' % re.sub(r'__vac\d*$', '', n))
    return probs


ASSUME_PATTERNS = [('assume', re.compile(r'\bassume\s*\(')), ('admit', re.compile(r'\badmit\s*\(')),
                   ('external_body', re.compile(r'external_body')), ('assume_specification', re.compile(r'assume_specification')),
                   ('external', re.compile(r'verifier::external\b')),
                   ('no_decreases', re.compile(r'exec_allows_no_decreases_clause')), ('AXIOM', re.compile(r'\bAXIOM\b'))]


def scan_assumptions(text):
    """Mechanical scan of the assembled text; returns list of 'kind: item' strings."""
    found = []
    spans = None
    lines = text.split('\n')
    skip = 0
    for i, l in enumerate(lines):
        code = l
        if re.match(r'// ---- unit \S+ \(imported contracts\) ----', l.strip()):
            skip += 1
        elif re.match(r'// ---- end unit \S+ ----', l.strip()):
            skip -= 1
        if skip > 0:
            continue
        if l.strip().startswith('//') and 'AXIOM' not in l:
            continue
        for kind, pat in ASSUME_PATTERNS:
            if pat.search(code):
                if kind != 'AXIOM' and l.strip().startswith('//'):
                    continue
                # name: next fn name at or after this line
                nm = None
                for j in range(i, min(i + 12, len(lines))):
                    m = re.search(r'\bfn\s+([A-Za-z_0-9]+)', lines[j])
                    if m:
                        nm = m.group(1)
                        break
                    m = re.search(r'assume_specification\s*(<[^>]*>)?\s*\[\s*(.+?)\]\s*\(', lines[j])
                    if m:
                        nm = re.sub(r'\s+', '', m.group(2))
                        break
                if kind in ('assume', 'admit'):
                    # enclosing fn: search backwards
                    for j in range(i, -1, -1):
                        m = re.search(r'\bfn\s+([A-Za-z_0-9]+)', lines[j])
                        if m:
                            nm = m.group(1)
                            break
                found.append('%s: %s' % (kind, nm))
    return sorted(set(found))


def write_replay(pid, ob, info):
    os.makedirs(os.path.join(REPLAYS, pid), exist_ok=True)
    safe = re.sub(r'[^A-Za-z0-9_.-]', '_', ob)
    p = os.path.join(REPLAYS, pid, safe + '.json')
    with open(p, 'w') as f:
        json.dump(info, f, indent=1)
    return p


def run_replay_search(pid, failure, seed, budget_s):
    """Ask the replay harness (executable postconditions on the real crate) for
    a failing input of the failed function.  Returns dict or None."""
    try:
        import replay_driver
    except Exception as e:
        return None
    try:
        return replay_driver.search(pid, failure, seed, budget_s)
    except Exception as e:
        return {'error': 'replay search crashed: %r' % (e,)}


def main(argv):
    import argparse
    ap = argparse.ArgumentParser()
    ap.add_argument('property')
    ap.add_argument('--tier', default=os.environ.get('VERIF_TIER', 'quick'))
    ap.add_argument('--replay')
    a = ap.parse_args(argv)
    pid = a.property
    if a.replay:
        import replay_driver
        return replay_driver.replay_file(a.replay)
    if pid not in PROPS:
        print('unknown property', pid)
        return 2
    tier = a.tier if a.tier in ('quick', 'thorough') else 'quick'
    seed = int(os.environ.get('VERIF_SEED', '0') or 0)
    t0 = time.time()
    os.makedirs(BUILD, exist_ok=True)
    os.makedirs(EVID, exist_ok=True)
    spec = PROPS[pid]
    # the units of the properties this one depends on are verified too (their contracts carry it)
    dep_units = list(spec['units'])
    seen_p = {pid}
    todo_p = [pid]
    while todo_p:
        q_ = todo_p.pop()
        for d_ in PROPS.get(q_, {}).get('depends', []):
            if d_ not in seen_p:
                seen_p.add(d_)
                todo_p.append(d_)
                for u_ in PROPS.get(d_, {}).get('units', []):
                    if u_ not in dep_units:
                        dep_units.append(u_)
    units = unit_closure(dep_units)
    rlimit = spec.get('rlimit', 30)
    runs = {}
    with cf.ThreadPoolExecutor(max_workers=8) as ex:
        futs = {u: ex.submit(process_unit, u, rlimit, seed, u in spec['units']) for u in units}
        for u, f in futs.items():
            runs[u] = f.result()
    cls = {u: classify(r) for u, r in runs.items()}
    # one retry with 4x rlimit / other seed for resource-limited units
    for u in units:
        # one retry (3x rlimit, other seed) for a unit that ran out of resources quickly; a unit that
        # already burned a lot of time is not retried (a slow query is an unstable query, not a bug)
        if cls[u]['status'] == 'resource' and runs[u].main and runs[u].main['wall'] < 60:
            r2 = process_unit(u, rlimit * 3, seed + 7919, u in spec['units'])
            runs[u] = r2
            cls[u] = classify(r2)
            cls[u]['notes'].append('retried with rlimit x4')

    # ---- collect function metadata for this property
    # functions this property rests on: those tagged with it, and those tagged with a property it
    # depends on (verification is modular: a callee whose own contract fails no longer carries this one)
    dep_props = {pid}
    todo = [pid]
    while todo:
        q = todo.pop()
        for d_ in PROPS.get(q, {}).get('depends', []):
            if d_ not in dep_props:
                dep_props.add(d_)
                todo.append(d_)
    own_fns = []       # fns tagged with this property (or one it depends on)
    all_meta = []
    for u in units:
        if runs[u].asm is None:
            continue
        for m in runs[u].asm.meta:
            if m.get('unit') == u and m['mode'] != 'imported':
                all_meta.append(m)
                if dep_props & set(m.get('props', [])):
                    own_fns.append(m)
    # thorough: seeds / half rlimit stability, no-cheating where clean
    stability = []
    if tier == 'thorough' and all(cls[u]['status'] == 'ok' for u in units):
        for u in spec['units']:
            for sd in (seed + 1, seed + 2, seed + 3):
                r = run_verus(runs[u].path, rlimit, sd)
                ok = bool(r['json'] and r['json'].get('verification-results', {}).get('success'))
                stability.append({'unit': u, 'seed': sd, 'rlimit': rlimit, 'ok': ok})
            r = run_verus(runs[u].path, max(1, rlimit // 2), seed)
            ok = bool(r['json'] and r['json'].get('verification-results', {}).get('success'))
            stability.append({'unit': u, 'seed': seed, 'rlimit': max(1, rlimit // 2), 'ok': ok})

    # ---- verdict
    known = load_known()
    violations = []
    inconclusive = []
    known_hits = []
    own_names = {verus_name(m['path']): m for m in own_fns}
    # items of the crate that are represented by hand-written stand-ins (assumed contracts, derived impls): the
    # stand-in was written for one text; if that text changed the verifier's answer is about other code
    for e in load_standins():
        if e['unit'] not in units:
            continue
        cur = standin_sha(e)
        if cur != e['sha256']:
            inconclusive.append('%s: drift: %s::%s (%s) changed (%s, now %s): its stand-in / assumed contract was written for the previous text' % (
                e['unit'], e['file'], e['item'], e['what'], e['sha256'], cur))
    for u in units:
        c = cls[u]
        if c['status'] in ('drift', 'frontend', 'resource'):
            inconclusive.append('%s: %s: %s' % (u, c['status'], '; '.join(c['notes'])[:400]))
            continue
        if c['status'] == 'fail':
            by_fn = {}
            for f in c['failures']:
                by_fn.setdefault(f['function'], []).append(f)
            for fn, fl in by_fn.items():
                # attribute to this property only if the fn is tagged with it
                key = None
                for nm in own_names:
                    if fn == nm or (fn and (fn.endswith('::' + nm) or nm.endswith('::' + fn) or fn.startswith(nm + '::'))):
                        key = nm
                if key is None:
                    # lemma / other property's function: if it is a proof fn of
                    # /verif's own library it is not a statement about the code
                    owner = [m for m in all_meta if fn and (verus_name(m['path']) == fn or fn.startswith(verus_name(m['path']) + '::'))]
                    if not owner:
                        inconclusive.append('%s: library proof %s failed (%s)' % (u, fn, fl[0]['message']))
                    continue
                if all(x['resource'] for x in fl):
                    inconclusive.append('%s: %s: resource limit' % (u, fn))
                    continue
                for x in fl:
                    if x['resource']:
                        continue
                    ob = x['obligation'] or (key + ':' + re.sub(r'\s+', '_', x['message'])[:60])
                    if x['callee']:
                        ob = (x['obligation'] or 'requires') + '@callsite-in:' + key
                    # 'hint': an obligation of /verif's own proof text (loop invariant, assert, decreases, precondition of a
                    # lemma called in a proof block); 'contract': a clause of a contract or a safety obligation of the code
                    ml = x['message'].lower()
                    hint = (not x['obligation']) and (('invariant' in ml) or ('assertion failed' in ml) or ('decreases' in ml) or bool(x.get('callee_is_proof')))
                    # 'safety': index bounds / machine arithmetic of the code itself; when a proof step of the same function
                    # fails too (typically the loop invariant that carried the bound) it is treated as its consequence
                    safety = (not x['obligation']) and (not x['callee']) and (('index in bounds' in ml) or ('underflow/overflow' in ml) or ('division by zero' in ml)
                                                                             or ('precondition' in ml and re.search(r'\b(debug_)?assert(_eq|_ne)?!', x['rendered'] or '') is not None))
                    violations.append({'function': key, 'obligation': ob, 'message': x['message'], 'rendered': x['rendered'], 'unit': u,
                                       'kind': 'hint' if hint else ('safety' if safety else 'contract')})
    # vacuity
    vac_problems = []
    for u in units:
        if cls[u]['status'] == 'ok' and u in spec['units']:
            vac_problems += ['%s: %s' % (u, p) for p in check_vacuity(runs[u], own_fns)]
    if vac_problems:
        inconclusive += vac_problems
    # every tagged function must appear in the breakdown with success
    missing = []
    for u in spec['units']:
        if cls[u]['status'] != 'ok':
            continue
        fb = cls[u].get('breakdown') or fn_breakdown(runs[u].main)
        for m in own_fns:
            if m.get('unit') != u or m['mode'] != 'verify':
                continue
            nm = verus_name(m['path'])
            hit = [k for k in fb if name_match(nm, k)]
            if not hit:
                missing.append(nm)
            elif not all(fb[k]['success'] for k in hit):
                missing.append(nm + ' (not successful)')
    if missing:
        inconclusive.append('functions missing from the verifier breakdown: ' + ', '.join(missing[:8]))
    if not own_fns and not inconclusive:
        inconclusive.append('no function is tagged with this property')
    # assumption scan + lock
    assumptions = []
    for u in units:
        if runs[u].asm is not None:
            for s in scan_assumptions(runs[u].asm.text):
                assumptions.append('%s: %s' % (u, s))
    assumptions = sorted(set(assumptions))
    lock_path = os.path.join(VERIF, 'contracts', 'ASSUMPTIONS.lock')
    locked = set(l.strip() for l in open(lock_path)) if os.path.exists(lock_path) else set()
    new_assumptions = [s for s in assumptions if s not in locked]
    if new_assumptions:
        inconclusive.append('assumptions not in ASSUMPTIONS.lock: ' + '; '.join(new_assumptions[:6]))

    # ---- known findings filter
    final_viol = []
    for v in violations:
        k = [e for e in known.get('open', []) if e['property'] == pid and e['obligation'] == v['obligation']]
        if k:
            known_hits.append((k[0], v))
        else:
            final_viol.append(v)
    # one violation per function: first named failing obligation leads, the rest go in the replay file
    byfn = {}
    for v in final_viol:
        byfn.setdefault(v['function'], []).append(v)
    uniq = []
    for fn, vs in byfn.items():
        named = [v for v in vs if not v['obligation'].startswith(fn + ':')]
        lead = dict((named or vs)[0])
        lead['all_failed'] = sorted(set(v['obligation'] for v in vs))
        kinds = set(v.get('kind') for v in vs)
        if 'contract' in kinds or ('safety' in kinds and 'hint' not in kinds):
            lead['kind'] = 'contract'
            c0 = [v for v in vs if v.get('kind') == 'contract'] or [v for v in vs if v.get('kind') == 'safety']
            if (named or vs)[0].get('kind') == 'hint':
                # let a contract clause lead the report when one failed
                lead.update({'obligation': c0[0]['obligation'], 'message': c0[0]['message']})
        else:
            lead['kind'] = 'hint'
        lead['rendered'] = '\n'.join(dict.fromkeys(v['rendered'] for v in vs))
        uniq.append(lead)
    final_viol = uniq

    # ---- evidence
    obligations = 0
    discharged = 0
    fn_rows = []
    total_smt_ms = 0
    failed_set = set(v['function'] for v in violations)
    for u in units:
        fb = cls[u].get('breakdown') or (fn_breakdown(runs[u].main) if runs[u].main else {})
        for m in (runs[u].asm.meta if runs[u].asm else []):
            if m.get('unit') != u:
                continue
            nm = verus_name(m['path'])
            hit = [k for k in fb if name_match(nm, k)]
            ok = bool(hit) and all(fb[k]['success'] for k in hit)
            ms = sum(fb[k]['time_ms'] for k in hit)
            n_ob = 1 + len([c for c in m['clauses'] if c['kw'] == 'ensures']) + m['n_invariants']
            row = {'item': m['path'], 'unit': u, 'sha256': m['sha256'][:16], 'mode': 'proved' if (m['mode'] == 'verify' and ok) else ('assumed' if m['mode'] == 'assumed' else ('imported' if m['mode'] == 'imported' else 'failed')),
                   'smt_ms': ms, 'obligations': n_ob, 'tagged': pid in m.get('props', []),
                   'relied_on_via': sorted((dep_props - {pid}) & set(m.get('props', [])))}
            if dep_props & set(m.get('props', [])):
                fn_rows.append(row)
                if m['mode'] == 'verify':
                    obligations += n_ob
                    if ok:
                        discharged += n_ob
                    total_smt_ms += ms
    # lemma (proof fn) obligations of the property's own units
    lemma_count = 0
    lemma_ok = 0
    for u in spec['units']:
        fb = cls[u].get('breakdown') or {}
        for k, e in fb.items():
            if e.get('mode') == 'proof' and not re.search(r'__vac\d*$', k):
                lemma_count += 1
                lemma_ok += 1 if e['success'] else 0
    samples = []
    for m in own_fns[:6]:
        for c in m['clauses']:
            if c['kw'] == 'ensures':
                samples.append({'function': m['path'], 'obligation': c['name'] or 'unnamed', 'clause': c['text'][:240]})
                break
    rules = {}
    for u in spec['units']:
        if runs[u].asm:
            for k, v in runs[u].asm.counts.items():
                rules[k] = rules.get(k, 0) + v
    verus_version = ''
    for u in units:
        try:
            verus_version = runs[u].main['json']['verus']['version']
            break
        except Exception:
            pass
    trusted = ['Verus %s (bundled Z3), rustc front end' % verus_version,
               'extraction rules R1-R9 (tools/assemble.py; syntactic, counts in coverage.rewrite_rules)'] + spec.get('trusted', [])
    evidence = {
        'property_id': pid, 'tier': tier, 'seed': seed, 'level': spec.get('level', 'proof'),
        'coverage': {
            'obligations': obligations + lemma_count, 'discharged': discharged + lemma_ok,
            'checker_cmd': runs[spec['units'][0]].main['cmd'] if runs[spec['units'][0]].main else 'verus (not run: drift)',
            'trusted_base': trusted,
            'samples': samples or [{'note': 'no obligations generated'}],
            'functions_under_contract': fn_rows,
            'lemmas_checked': lemma_count,
            'back_end': 'z3 via Verus',
            'solver_ms': total_smt_ms,
            'units': {u: {'status': cls[u]['status'], 'wall_s': round(runs[u].main['wall'], 2) if runs[u].main else None,
                          'imported_as_stub': u not in spec['units']} for u in units},
            'rewrite_rules': rules,
            'vacuity': {'canary_rejected': not any('canary' in p for p in vac_problems), 'problems': vac_problems,
                        'clones_checked': sum(len([n for n in fn_breakdown(runs[u].vac) if re.search(r'__vac\d*$', n)]) for u in spec['units'] if runs[u].vac)},
            'stability': stability,
            'bounded_checks': spec.get('bounded', []),
            'explanation': spec.get('explanation', ''),
            'inconclusive': inconclusive,
            'drift_hints_skipped': [m for u in units for m in (getattr(runs[u], 'skipped', []) or [])],
            'known_findings_hit': [k['what'] for k, _ in known_hits],
        },
        'assumptions': assumptions + spec.get('assumptions', []),
        'wall_s': round(time.time() - t0, 2),
        'violations': len(final_viol),
    }
    if evidence['coverage']['obligations'] == 0:
        evidence['coverage']['obligations'] = 0
    # schema wants >= 1 for proof level; if nothing was generated we are inconclusive anyway
    with open(os.path.join(EVID, pid + '.json'), 'w') as f:
        json.dump(evidence, f, indent=1)

    for k, v in known_hits:
        print('KNOWN-FINDING: property=%s %s' % (pid, k['what']))
    # bounded stand-ins (functions outside the verifier's reach) and, in the thorough tier, a
    # consistency run of the replay oracle on this tree.  Labelled bounded; never counted as discharged.
    bounded_found = None
    bounded_runs = []
    standins = list(spec.get('bounded', []))
    if tier == 'thorough' and not standins:
        standins = [{'oracle': pid, 'what': 'thorough tier: consistency run of the replay oracle (executable postconditions) on this tree', 'budget_s': 60}]
    if standins and not final_viol:
        import replay_driver
        for sdn in standins:
            b = sdn.get('budget_s', 8) * (4 if tier == 'thorough' else 1)
            rs0 = replay_driver.search(sdn['oracle'], None, seed, b)
            bounded_runs.append({'oracle': sdn['oracle'], 'what': sdn.get('what', ''), 'level': 'bounded', 'budget_s': b,
                                 'cases': rs0.get('cases'), 'found': bool(rs0.get('found')), 'error': rs0.get('error')})
            if rs0.get('found') and bounded_found is None:
                bounded_found = rs0
        evidence['coverage']['bounded_checks'] = bounded_runs
        with open(os.path.join(EVID, pid + '.json'), 'w') as f:
            json.dump(evidence, f, indent=1)
    if bounded_found and not final_viol:
        rs = bounded_found
        info = {'property': pid, 'obligation': 'bounded:' + str(rs.get('oracle')), 'function': rs.get('oracle'), 'unit': None,
                'verifier_message': 'bounded stand-in (replay oracle) found a failing input on the real code', 'verifier_output': '', 'failing_input': rs}
        path = write_replay(pid, 'bounded_' + str(rs.get('oracle')), info)
        evidence['violations'] = 1
        with open(os.path.join(EVID, pid + '.json'), 'w') as f:
            json.dump(evidence, f, indent=1)
        print('VIOLATION property=%s replay=%s obligation=%s function=%s' % (pid, path, info['obligation'], rs.get('oracle')))
        print('  failing input (%s): %s  expected %s  got %s' % (rs.get('oracle'), rs.get('input'), rs.get('expected'), rs.get('got')))
        return 1
    drift_notes = []
    for u in units:
        for m in getattr(runs[u], 'skipped', []) or []:
            drift_notes.append('%s: %s' % (u, m))
    budget = 20 if tier == 'quick' else 120
    # second back end (Kani/CBMC) for the scalar properties: loop-free full-domain harnesses over the
    # public API.  Thorough tier: always; quick tier: only to attach CBMC's counterexample to a violation.
    kani_res = None
    if spec.get('kani') and (tier == 'thorough' or final_viol):
        import kani_driver
        try:
            kani_res = kani_driver.run(spec['kani'])
        except Exception as e:
            kani_res = {'ok': None, 'error': 'kani driver: %s' % e, 'harnesses': []}
        evidence['coverage']['second_back_end'] = {'back_end': 'Kani 0.68 / CBMC 6.11', 'harness_prefix': spec['kani'],
                                                   'note': 'loop-free harnesses over symbolic u32 inputs on the public API: complete for their assertions',
                                                   'ok': kani_res.get('ok'), 'error': kani_res.get('error'),
                                                   'harnesses': [{'name': h['name'], 'ok': h['ok'], 'failed_checks': h['failed_checks']} for h in kani_res.get('harnesses', [])]}
        with open(os.path.join(EVID, pid + '.json'), 'w') as f:
            json.dump(evidence, f, indent=1)
        kfail = [h for h in kani_res.get('harnesses', []) if h['ok'] is False]
        if kfail and not final_viol:
            # Verus discharged everything but CBMC refutes an assertion on the real code: report it
            # (the two back ends disagree only if a contract is weaker than the harness)
            h = kfail[0]
            info = {'property': pid, 'obligation': 'kani:' + h['name'], 'function': h['name'], 'unit': None,
                    'verifier_message': '; '.join(h['failed_checks']), 'verifier_output': h['playback'], 'second_back_end_counterexample': h['playback']}
            path = write_replay(pid, 'kani_' + h['name'], info)
            evidence['violations'] = 1
            with open(os.path.join(EVID, pid + '.json'), 'w') as f:
                json.dump(evidence, f, indent=1)
            print('VIOLATION property=%s replay=%s obligation=kani:%s function=%s' % (pid, path, h['name'], h['name']))
            print('  CBMC counterexample: ' + ' '.join(re.findall(r'// (\d+)', h['playback'])))
            return 1
    if final_viol:
        # a failed obligation.  Without drift it is reported as it is (with a failing input when the
        # replay search finds one); when proof hints had to be skipped because the code moved away
        # from the contract anchors, only a concrete failing input makes it a violation.
        rs = run_replay_search(pid, final_viol[0], seed, budget)
        found = bool(rs and rs.get('found'))
        if rs and rs.get('error') and not found:
            # the search itself did not run (e.g. the harness does not build against this tree): say so
            print('NOTE property=%s replay search did not run: %s' % (pid, str(rs.get('error')).strip().split('\n')[0][:300]))
        if not found and not drift_notes and all(v.get('kind') == 'hint' for v in final_viol):
            # every contract clause still discharges; what fails is a step of the proof text itself (an invariant, an
            # assert, the precondition of a lemma) and no failing input exists within the replay search: the proof no
            # longer fits the code, which is not evidence against the property
            for v in final_viol:
                print('INCONCLUSIVE property=%s reason=proof step %s in %s no longer discharges (all contract clauses do); replay search found no failing input' % (pid, v['obligation'], v['function']))
            return 2
        if drift_notes and not found:
            for s_ in drift_notes[:5]:
                print('INCONCLUSIVE property=%s reason=contract drift (the code moved away from what a proof hint was written for): %s' % (pid, s_))
            for v in final_viol:
                print('INCONCLUSIVE property=%s reason=obligation %s in %s not discharged after drift; replay search found no failing input' % (pid, v['obligation'], v['function']))
            return 2
        for v in final_viol:
            info = {'property': pid, 'obligation': v['obligation'], 'function': v['function'], 'unit': v['unit'],
                    'verifier_message': v['message'], 'verifier_output': v['rendered'], 'all_failed_obligations': v.get('all_failed', []),
                    'drift': drift_notes, 'failing_input': rs if found else None, 'replay_search': None if found else rs,
                    'second_back_end_counterexample': [{'harness': h['name'], 'failed_checks': h['failed_checks'], 'playback': h['playback']} for h in (kani_res or {}).get('harnesses', []) if h['ok'] is False] or None}
            path = write_replay(pid, v['obligation'], info)
            tail = '' if found else ' no-failing-input-found'
            print('VIOLATION property=%s replay=%s obligation=%s function=%s%s' % (pid, path, v['obligation'], v['function'], tail))
            if found:
                print('  failing input (%s): %s  expected %s  got %s' % (rs.get('oracle'), rs.get('input'), rs.get('expected'), rs.get('got')))
        for h in (kani_res or {}).get('harnesses', []):
            if h['ok'] is False:
                print('  second back end (Kani/CBMC) refutes %s: %s ; counterexample values: %s' % (h['name'], '; '.join(h['failed_checks'])[:160], ' '.join(re.findall(r'// (\d+)', h['playback']))))
        return 1
    if inconclusive:
        # the verifier could not conclude (drift / front end / resource).  A concrete failing input on
        # the real code is still a violation; otherwise the run stays inconclusive.
        hard = [s_ for s_ in inconclusive if ': drift:' in s_ or ': frontend:' in s_ or 'resource' in s_]
        if hard:
            rs = run_replay_search(pid, None, seed, budget)
            if rs and rs.get('found'):
                info = {'property': pid, 'obligation': 'replay:' + str(rs.get('oracle')), 'function': rs.get('oracle'), 'unit': None,
                        'verifier_message': 'verifier inconclusive: ' + '; '.join(hard)[:500], 'verifier_output': '', 'failing_input': rs}
                path = write_replay(pid, 'replay_' + str(rs.get('oracle')), info)
                print('VIOLATION property=%s replay=%s obligation=%s function=%s' % (pid, path, info['obligation'], rs.get('oracle')))
                print('  failing input (%s): %s  expected %s  got %s' % (rs.get('oracle'), rs.get('input'), rs.get('expected'), rs.get('got')))
                return 1
        for s_ in inconclusive:
            print('INCONCLUSIVE property=%s reason=%s' % (pid, s_))
        return 2
    extra = ''
    if drift_notes:
        extra = ' (hints skipped after drift: %d; contracts still discharged)' % len(drift_notes)
    print('OK property=%s obligations=%d discharged=%d functions=%d wall=%.1fs%s' % (pid, evidence['coverage']['obligations'], evidence['coverage']['discharged'], len(fn_rows), time.time() - t0, extra))
    return 0


if __name__ == '__main__':
    sys.exit(main(sys.argv[1:]))
