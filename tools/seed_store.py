#!/usr/bin/env python3
"""tools/seed_store.py <seed-dir> <PROP> [note]: confirm a seeded change (tools/seed_eval.sh), run the check on it and
store it under /verif/seeded/<name>/ with the outcome recorded in meta.json"""
import sys, os, json, subprocess, shutil, re
src = sys.argv[1].rstrip('/')
prop = sys.argv[2]
note = sys.argv[3] if len(sys.argv) > 3 else None
name = os.path.basename(src)
out = subprocess.run(['/verif/tools/seed_eval.sh', src, prop], capture_output=True, text=True).stdout
print(out)
m = re.search(r'demo passes on HEAD: (\d+) ; suite with change: (.*?) ; demo fails with change: (\d+)', out)
meta = json.load(open(os.path.join(src, 'meta.json')))
lines = [l for l in out.split('\n') if l.startswith(('VIOLATION', 'INCONCLUSIVE', 'OK ', 'KNOWN-FINDING', '  failing input'))]
meta['confirmed_by_framework_author'] = {
    'ran': 'tools/seed_eval.sh (scratch worktree of /repo HEAD: demo passes on HEAD, cargo test --offline passes with the change, demo fails with the change, then ./check %s against the changed tree)' % prop,
    'demo_passes_on_head': bool(m and m.group(1) == '1'),
    'suite_passes_with_change': bool(m and 'FAILED' not in m.group(2) and 'ok' in m.group(2)),
    'demo_fails_with_change': bool(m and m.group(3) == '1'),
}
if 'check_result_first_run' in meta and os.path.abspath(src) == os.path.abspath(os.path.join('/verif/seeded', name)):
    meta['check_result_latest'] = lines  # re-evaluation of a stored seed: the first-run record and its note are kept
else:
    meta['check_result_first_run'] = lines
rc = re.search(r'check %s rc=(\d+)' % prop, out)
meta['check_exit_code'] = int(rc.group(1)) if rc else None
if note:
    meta['note'] = note
dst = os.path.join('/verif/seeded', name)
os.makedirs(dst, exist_ok=True)
for f in ('patch.diff', 'demo.rs'):
    if os.path.abspath(src) != os.path.abspath(dst):
        shutil.copyfile(os.path.join(src, f), os.path.join(dst, f))
json.dump(meta, open(os.path.join(dst, 'meta.json'), 'w'), indent=1)
print('stored', dst, 'rc', meta['check_exit_code'])
