#!/usr/bin/env python3
"""Regenerate MANIFEST.json from contracts/properties.json + contracts/not_applicable.json."""
import json, os
V = os.path.dirname(os.path.dirname(os.path.abspath(__file__)))
props = json.load(open(os.path.join(V, 'contracts', 'properties.json')))
na = json.load(open(os.path.join(V, 'contracts', 'not_applicable.json')))
all_ids = [json.loads(l)['id'] for l in open(os.path.join(V, 'properties.jsonl')) if l.strip()]
checks = []
for pid in all_ids:
    if pid not in props:
        continue
    p = props[pid]
    checks.append({
        'property_id': pid,
        'quick_cmd': './check %s --tier quick' % pid,
        'thorough_cmd': './check %s --tier thorough' % pid,
        'evidence_file': '/verif/evidence/%s.json' % pid,
        'replay_cmd_template': './check %s --replay {path}' % pid,
        'engine': 'verus-contracts',
        'level_claimed': {'category': p.get('level', 'proof'), 'text': p['level_text'], 'design_ref': p.get('design_ref', 'DESIGN.md §4 ' + pid)},
        'level_note': p['level_note'],
        'technique': p.get('technique', 'contract-based deductive verification (Verus/Z3) of the real functions, re-extracted on every run'),
    })
claimed = set(c['property_id'] for c in checks)
not_app = [{'property_id': pid, 'reason': na[pid]} for pid in all_ids if pid not in claimed]
missing = [pid for pid in all_ids if pid not in claimed and pid not in na]
assert not missing, missing
m = {
    'version': 1,
    'setup_cmd': './setup.sh',
    'hooks': {
        'guard': 'awslabs_rust_smt_strings_verif',
        'enable': 'RUSTFLAGS="--cfg awslabs_rust_smt_strings_verif --check-cfg cfg(awslabs_rust_smt_strings_verif)" (replay harness only; Verus reads /repo/src text and needs no hook)',
        'baseline_off_cmd': 'cd /repo && cargo test --workspace --no-fail-fast --offline',
        'source_commits': json.load(open(os.path.join(V, 'contracts', 'hook_commits.json'))),
        'add_only': True,
    },
    'engines': [
        {'name': 'verus-contracts', 'path': '/verif/check', 'serves_properties': sorted(claimed),
         'kind_free_text': 'contracts (requires/ensures/invariants/lemmas) in /verif/contracts applied to the functions re-extracted from /repo/src on each run; Verus 0.2026.09.13 + Z3 discharges every obligation; driver tools/driver.py'},
        {'name': 'kani-harnesses', 'path': '/verif/kani', 'serves_properties': sorted(pid for pid in claimed if props[pid].get('kani')),
         'kind_free_text': 'second back end for the scalar properties: loop-free full-domain Kani 0.68 / CBMC harnesses over the public API of the current tree (complete for their assertions; CBMC supplies concrete counterexample values); run in the thorough tier and whenever the first back end reports a violation (tools/kani_driver.py)'},
    ],
    'checks': checks,
    'not_applicable': not_app,
    'notes': 'Exit 2 + INCONCLUSIVE line = contract drift / front-end / resource limit / only steps of the proof text fail and no failing input exists (never a VIOLATION). See DESIGN.md.',
}
json.dump(m, open(os.path.join(V, 'MANIFEST.json'), 'w'), indent=1)
print('claimed', sorted(claimed), 'n/a', [x['property_id'] for x in not_app])
