#!/bin/bash
# dev helper: assemble + verify one unit, print rendered diagnostics
cd /verif
python3 tools/assemble.py $1 -o build/$1.rs $2 2>&1 || { echo 'error: DRIFT'; exit 2; }
cd build && verus $1.rs --error-format=json --output-json --time-expanded ${@:3} 2>$1.err >$1.json
python3 - $1 <<'PY'
import json,sys
u=sys.argv[1]
for l in open('/verif/build/%s.err'%u):
    l=l.rstrip()
    if l.startswith('{'):
        d=json.loads(l)
        print(d['rendered'])
    else: print(l)
d=json.load(open('/verif/build/%s.json'%u))
print(d['verification-results'])
try:
  for m in d['times-ms']['smt']['smt-run-module-times']:
    for f in m['function-breakdown']:
        if not f['success'] or f['time']>2000: print(f['function'], f['success'], f['time'],'ms')
except Exception as e: print(e)
PY
