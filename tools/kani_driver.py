#!/usr/bin/env python3
"""Second back end: run the Kani harnesses of /verif/kani against the current tree.
Loop-free harnesses over symbolic u32 inputs: a pass is a complete proof of the harness's assertions,
a failure comes with CBMC's concrete counterexample (printed by --concrete-playback=print)."""
import os, re, shutil, subprocess, hashlib, json, sys

TOOLS = os.path.dirname(os.path.abspath(__file__))
VERIF = os.path.dirname(TOOLS)
BUILD = os.environ.get('VERIF_BUILD_DIR') or os.path.join(VERIF, 'build')
REPO_SRC = os.environ.get('VERIF_REPO_SRC', '/repo/src')
REPO_ROOT = os.path.dirname(os.path.abspath(REPO_SRC))


def run(prefix, timeout=600):
    """Run every harness whose name starts with prefix.  Returns dict(ok, harnesses=[{name, ok, failed_checks, playback}], error)."""
    tag = hashlib.sha1(REPO_ROOT.encode()).hexdigest()[:10]
    crate = os.path.join(BUILD, 'kani_crate_' + tag)
    os.makedirs(os.path.join(crate, 'src'), exist_ok=True)
    os.makedirs(os.path.join(crate, '.cargo'), exist_ok=True)
    shutil.copyfile(os.path.join(VERIF, 'kani', 'src', 'lib.rs'), os.path.join(crate, 'src', 'lib.rs'))
    if not os.path.exists(os.path.join(REPO_ROOT, 'Cargo.toml')):
        shutil.copyfile('/repo/Cargo.toml', os.path.join(REPO_ROOT, 'Cargo.toml'))
    with open(os.path.join(crate, 'Cargo.toml'), 'w') as f:
        f.write('[package]\nname = "kani-harness"\nversion = "0.1.0"\nedition = "2021"\n\n[dependencies]\naws-smt-strings = { path = "%s" }\n\n[workspace]\n' % REPO_ROOT)
    with open(os.path.join(crate, '.cargo', 'config.toml'), 'w') as f:
        f.write('[net]\noffline = true\n')
    if os.path.exists('/repo/Cargo.lock'):
        shutil.copyfile('/repo/Cargo.lock', os.path.join(crate, 'Cargo.lock'))
    names = re.findall(r'#\[kani::proof\]\s*fn\s+(%s\w*)' % re.escape(prefix), open(os.path.join(crate, 'src', 'lib.rs')).read())
    env = dict(os.environ)
    env['CARGO_NET_OFFLINE'] = 'true'
    env['CARGO_TARGET_DIR'] = os.path.join(BUILD, 'kani_target')
    out = {'ok': True, 'harnesses': [], 'error': None, 'back_end': 'Kani 0.68 / CBMC'}
    for nm in names:
        try:
            p = subprocess.run(['cargo', 'kani', '--harness', nm, '-Z', 'concrete-playback', '--concrete-playback=print'], cwd=crate, env=env, capture_output=True, text=True, timeout=timeout)
        except subprocess.TimeoutExpired:
            out['ok'] = False
            out['error'] = 'timeout in ' + nm
            out['harnesses'].append({'name': nm, 'ok': None, 'failed_checks': [], 'playback': ''})
            continue
        txt = p.stdout + p.stderr
        if 'VERIFICATION:- SUCCESSFUL' in txt:
            out['harnesses'].append({'name': nm, 'ok': True, 'failed_checks': [], 'playback': ''})
        elif 'VERIFICATION:- FAILED' in txt:
            failed = re.findall(r'Failed Checks: (.*)', txt)
            pb = ''
            m = re.search(r'Concrete playback unit test for.*?```(.*?)```', txt, re.S)
            if m:
                pb = m.group(1).strip()
            out['ok'] = False
            out['harnesses'].append({'name': nm, 'ok': False, 'failed_checks': failed[:6], 'playback': pb[:3000]})
        else:
            out['ok'] = False
            out['error'] = 'kani did not reach verification for %s: %s' % (nm, txt[-400:])
            out['harnesses'].append({'name': nm, 'ok': None, 'failed_checks': [], 'playback': ''})
    return out


if __name__ == '__main__':
    print(json.dumps(run(sys.argv[1] if len(sys.argv) > 1 else 'c20_'), indent=1))
