#!/usr/bin/env python3
"""Lexer-level Rust item slicer.

Copies token text from the real source; never re-types a body.  Used by
assemble.py to pull the items named in a contract template out of /repo's
current working tree.
"""
import re
import hashlib

IDENT_START = re.compile(r'[A-Za-z_]')
IDENT = re.compile(r'[A-Za-z_][A-Za-z0-9_]*')
NUMBER = re.compile(r'[0-9][A-Za-z0-9_]*(\.[0-9][A-Za-z0-9_]*)?')


class LexError(Exception):
    pass


class Tok:
    __slots__ = ('kind', 'text', 'start', 'end')

    def __init__(self, kind, text, start, end):
        self.kind = kind
        self.text = text
        self.start = start
        self.end = end

    def __repr__(self):
        return 'Tok(%s,%r,%d)' % (self.kind, self.text, self.start)


def lex(src):
    """Tokenise Rust (or Verus) source.  Kinds: ws, comment, doc, str, char,
    lifetime, ident, num, punct."""
    toks = []
    i = 0
    n = len(src)
    while i < n:
        c = src[i]
        if c.isspace():
            j = i
            while j < n and src[j].isspace():
                j += 1
            toks.append(Tok('ws', src[i:j], i, j))
            i = j
        elif src.startswith('//', i):
            j = src.find('\n', i)
            if j < 0:
                j = n
            text = src[i:j]
            kind = 'doc' if (text.startswith('///') and not text.startswith('////')) or text.startswith('//!') else 'comment'
            toks.append(Tok(kind, text, i, j))
            i = j
        elif src.startswith('/*', i):
            depth = 1
            j = i + 2
            while j < n and depth > 0:
                if src.startswith('/*', j):
                    depth += 1
                    j += 2
                elif src.startswith('*/', j):
                    depth -= 1
                    j += 2
                else:
                    j += 1
            if depth:
                raise LexError('unterminated block comment at %d' % i)
            text = src[i:j]
            kind = 'doc' if (text.startswith('/**') and not text.startswith('/***') and text != '/**/') or text.startswith('/*!') else 'comment'
            toks.append(Tok(kind, text, i, j))
            i = j
        elif c == '"' or (c in 'b' and src.startswith('b"', i)):
            j = i + (2 if c == 'b' else 1)
            while j < n and src[j] != '"':
                if src[j] == '\\':
                    j += 1
                j += 1
            if j >= n:
                raise LexError('unterminated string at %d' % i)
            j += 1
            toks.append(Tok('str', src[i:j], i, j))
            i = j
        elif (c == 'r' and re.match(r'r#*"', src[i:i + 40] or '')) or (c == 'b' and re.match(r'br#*"', src[i:i + 40] or '')):
            m = re.match(r'b?r(#*)"', src[i:])
            hashes = m.group(1)
            endmark = '"' + hashes
            j = src.find(endmark, i + m.end())
            if j < 0:
                raise LexError('unterminated raw string at %d' % i)
            j += len(endmark)
            toks.append(Tok('str', src[i:j], i, j))
            i = j
        elif c == "'":
            # char literal or lifetime
            m = re.match(r"'(\\x[0-9a-fA-F]{2}|\\u\{[0-9a-fA-F_]+\}|\\.|[^\\'])'", src[i:])
            if m:
                j = i + m.end()
                toks.append(Tok('char', src[i:j], i, j))
                i = j
            else:
                m = re.match(r"'[A-Za-z_][A-Za-z0-9_]*", src[i:])
                if not m:
                    raise LexError('bad quote at %d' % i)
                j = i + m.end()
                toks.append(Tok('lifetime', src[i:j], i, j))
                i = j
        elif c == 'b' and src.startswith("b'", i):
            m = re.match(r"b'(\\x[0-9a-fA-F]{2}|\\.|[^\\'])'", src[i:])
            if not m:
                raise LexError('bad byte literal at %d' % i)
            j = i + m.end()
            toks.append(Tok('char', src[i:j], i, j))
            i = j
        elif IDENT_START.match(c):
            m = IDENT.match(src, i)
            j = m.end()
            # raw identifiers r#foo
            toks.append(Tok('ident', src[i:j], i, j))
            i = j
        elif c.isdigit():
            m = NUMBER.match(src, i)
            j = m.end()
            # do not swallow `..` of a range (1..3)
            t = src[i:j]
            if '.' in t and src.startswith('..', i + t.index('.')):
                j = i + t.index('.')
            toks.append(Tok('num', src[i:j], i, j))
            i = j
        else:
            toks.append(Tok('punct', c, i, i + 1))
            i += 1
    return toks


OPEN = {'(': ')', '[': ']', '{': '}'}
CLOSE = {')', ']', '}'}


def sig(toks):
    """indices of significant tokens"""
    return [k for k, t in enumerate(toks) if t.kind not in ('ws', 'comment', 'doc')]


def match_close(toks, k):
    """toks[k] is an opening bracket; return index of its matching close."""
    depth = 0
    for j in range(k, len(toks)):
        t = toks[j]
        if t.kind == 'punct':
            if t.text in OPEN:
                depth += 1
            elif t.text in CLOSE:
                depth -= 1
                if depth == 0:
                    return j
    raise LexError('unbalanced bracket at offset %d' % toks[k].start)


class Item:
    """One Rust item: [start,end) character offsets in the file; `head_start`
    skips leading doc comments/attributes; body_open/body_close are the
    offsets of the braces of the item's block, if any."""

    def __init__(self, kind, name, start, head_start, end, body_open, body_close, attrs):
        self.kind = kind
        self.name = name
        self.start = start
        self.head_start = head_start
        self.end = end
        self.body_open = body_open
        self.body_close = body_close
        self.attrs = attrs

    def __repr__(self):
        return 'Item(%s %s %d..%d)' % (self.kind, self.name, self.start, self.end)


ITEM_KW = {'fn', 'struct', 'enum', 'impl', 'mod', 'const', 'static', 'type', 'use', 'trait', 'union', 'macro_rules', 'extern'}
FN_QUALS = {'pub', 'const', 'async', 'unsafe', 'extern', 'default', 'open', 'closed', 'spec', 'proof', 'exec', 'broadcast', 'uninterp', 'tracked', 'axiom'}


def parse_items(src, lo, hi, toks=None, in_fn=False):
    """Parse the items found in src[lo:hi] (one nesting level).  Statement
    text that is not an item (inside fn bodies) is skipped token by token."""
    if toks is None:
        toks = lex(src)
    idx = [k for k in sig(toks) if toks[k].start >= lo and toks[k].end <= hi]
    items = []
    p = 0
    while p < len(idx):
        k = idx[p]
        t = toks[k]
        item_start_p = p
        attrs = []
        # leading docs are non-significant; find start including them
        # attributes
        q = p
        while q < len(idx) and toks[idx[q]].text == '#':
            r = q + 1
            if r < len(idx) and toks[idx[r]].text == '!':
                r += 1
            if r < len(idx) and toks[idx[r]].text == '[':
                close = match_close(toks, idx[r])
                attrs.append(src[toks[idx[q]].start:toks[close].end])
                while idx[q] <= close:
                    q += 1
                    if q >= len(idx):
                        break
            else:
                break
        if q >= len(idx):
            break
        head_p = q
        # qualifiers
        r = q
        while r < len(idx) and toks[idx[r]].kind == 'ident' and toks[idx[r]].text in FN_QUALS and toks[idx[r]].text not in ('const', 'extern', 'unsafe'):
            r += 1
            if r < len(idx) and toks[idx[r]].text == '(' and toks[idx[r - 1]].text in ('pub', 'open', 'closed'):
                close = match_close(toks, idx[r])
                while r < len(idx) and idx[r] <= close:
                    r += 1
        # const fn / unsafe fn / extern "C" fn
        r2 = r
        while r2 < len(idx) and toks[idx[r2]].kind == 'ident' and toks[idx[r2]].text in ('const', 'unsafe', 'async', 'extern'):
            r2 += 1
            if r2 < len(idx) and toks[idx[r2]].kind == 'str':
                r2 += 1
        kw = None
        if r2 < len(idx) and toks[idx[r2]].kind == 'ident' and toks[idx[r2]].text == 'fn':
            kw = 'fn'
            r = r2
        elif r < len(idx) and toks[idx[r]].kind == 'ident' and toks[idx[r]].text in ITEM_KW:
            kw = toks[idx[r]].text
            if kw == 'const' and r + 1 < len(idx) and toks[idx[r + 1]].text == '{':
                kw = None  # const block expression
            if kw == 'unsafe' or kw == 'extern':
                kw = None
        if kw is not None and in_fn and kw != 'fn':
            kw = None
        if kw is not None and head_p > 0 and item_start_p > 0 and toks[idx[item_start_p - 1]].text == '.':
            kw = None
        if kw is None and toks[idx[q]].text == '!' and q + 1 < len(idx) and toks[idx[q + 1]].text in OPEN and q > 0 and toks[idx[q - 1]].kind == 'ident':
            # macro invocation: skip its token tree
            close = match_close(toks, idx[q + 1])
            while q < len(idx) and idx[q] <= close:
                q += 1
            p = q
            continue
        if kw is None:
            # not an item: skip one token (entering brackets transparently is
            # fine: nested items inside blocks of the same fn body are found
            # because we do not jump over braces here)
            p = p + 1 if q == p else q
            continue
        # item start offset: include immediately preceding doc comments
        start_tok = idx[item_start_p]
        s = start_tok
        while s - 1 >= 0 and toks[s - 1].kind in ('ws', 'doc', 'comment') and toks[s - 1].start >= lo:
            if toks[s - 1].kind == 'ws' and toks[s - 1].text.count('\n') > 1:
                break
            s -= 1
        # only keep docs: trim leading ws
        while s < start_tok and toks[s].kind == 'ws':
            s += 1
        start_off = toks[s].start
        head_off = toks[idx[head_p]].start
        # name
        name = None
        if kw in ('fn', 'struct', 'enum', 'mod', 'const', 'static', 'type', 'trait', 'union'):
            if r + 1 < len(idx):
                nt = toks[idx[r + 1]]
                if kw in ('const', 'static') and nt.text == 'mut':
                    nt = toks[idx[r + 2]]
                name = nt.text
        elif kw == 'impl':
            name = None  # filled below
        # find end: first `;` or `{...}` at depth 0 (for fn: body brace after
        # signature; `where` clauses and generics contain no braces at depth 0
        # except const generics, which this crate does not use)
        r3 = r + 1
        body_open = body_close = None
        end_off = None
        angle = 0
        while r3 < len(idx):
            tt = toks[idx[r3]]
            if tt.kind == 'punct' and tt.text in ('(', '['):
                close = match_close(toks, idx[r3])
                while r3 < len(idx) and idx[r3] <= close:
                    r3 += 1
                continue
            if tt.kind == 'punct' and tt.text == '{':
                # struct literal in const initialiser: `const X: T = T { .. };`
                close = match_close(toks, idx[r3])
                if kw in ('const', 'static', 'type', 'use'):
                    while r3 < len(idx) and idx[r3] <= close:
                        r3 += 1
                    continue
                r4 = r3
                while r4 < len(idx) and idx[r4] <= close:
                    r4 += 1
                if kw == 'fn' and r4 < len(idx) and toks[idx[r4]].kind == 'punct' and toks[idx[r4]].text in (',', '&', '|', '=', '+', '-', '.', '?', ')', ']', '<', '>', '*', '/'):
                    # a brace group inside a Verus spec clause (`match ret { .. },`): not the body
                    r3 = r4
                    continue
                body_open = tt.start
                body_close = toks[close].start
                end_off = toks[close].end
                r3 = r4
                break
            if tt.kind == 'punct' and tt.text == ';':
                end_off = tt.end
                r3 += 1
                break
            r3 += 1
        if end_off is None:
            raise LexError('item without end at offset %d' % head_off)
        if kw == 'impl':
            header = src[toks[idx[r]].start:body_open].strip()
            name = re.sub(r'\s+', ' ', header)
        # tuple struct: `struct X(..);` handled by `;` end
        items.append(Item(kw, name, start_off, head_off, end_off, body_open, body_close, attrs))
        p = r3
    return items


def strip_generics(s):
    out = []
    depth = 0
    prev = ''
    for ch in s:
        if ch == '<':
            depth += 1
        elif ch == '>' and prev != '-':
            depth -= 1
        elif depth == 0:
            out.append(ch)
        prev = ch
    return re.sub(r'\s+', ' ', ''.join(out)).strip()


def impl_key(name):
    """`impl<'a> Iterator for ClassIdIterator<'a>` -> 'impl Iterator for ClassIdIterator'"""
    # a where clause is not part of the key: `impl<D, F> Minimizer<D, F> where D: ..` -> 'impl Minimizer'
    return strip_generics(re.split(r'\bwhere\b', name)[0])


class SourceFile:
    def __init__(self, path):
        self.path = path
        with open(path, encoding='utf-8') as f:
            self.src = f.read()
        self.toks = lex(self.src)
        self.top = parse_items(self.src, 0, len(self.src), self.toks)

    def children(self, item):
        if item.body_open is None:
            return []
        return parse_items(self.src, item.body_open + 1, item.body_close, self.toks, in_fn=(item.kind == 'fn'))

    def find(self, path):
        """path: segments separated by '::'.  A first segment `T` matches a
        top-level item named T or searches inherent `impl T` blocks.  A segment
        beginning with 'impl ' names an impl block (generics ignored).  A
        segment `mod:name` enters a module.  Returns the Item."""
        segs = split_path(path)
        level = self.top
        item = None
        i = 0
        while i < len(segs):
            seg = segs[i]
            found = None
            if seg.startswith('impl ') or seg.startswith('impl<'):
                cands = [it for it in level if it.kind == 'impl' and re.sub(r'\s+', ' ', it.name).strip() == seg]
                if not cands:
                    cands = [it for it in level if it.kind == 'impl' and impl_key(it.name) == seg]
                if len(cands) != 1:
                    raise KeyError('%s: %d impl blocks match %r' % (self.path, len(cands), seg))
                found = cands[0]
            else:
                kind = None
                nm = seg
                if ':' in seg:
                    kind, nm = seg.split(':', 1)
                cands = [it for it in level if it.name == nm and it.kind != 'impl' and it.kind != 'use' and (kind is None or it.kind == kind)]
                if i + 1 < len(segs) and kind is None:
                    # prefer a container: inherent impl blocks of that type, or fn/mod
                    impls = [it for it in level if it.kind == 'impl' and impl_key(it.name) == 'impl ' + nm]
                    hits = []
                    for im in impls:
                        for ch in self.children(im):
                            if ch.name == segs[i + 1] and ch.kind == 'fn':
                                hits.append(ch)
                    if hits:
                        if len(hits) != 1:
                            raise KeyError('%s: %d matches for %s::%s' % (self.path, len(hits), nm, segs[i + 1]))
                        found = hits[0]
                        i += 1
                if found is None:
                    if len(cands) != 1:
                        raise KeyError('%s: %d items match %r' % (self.path, len(cands), seg))
                    found = cands[0]
            item = found
            level = self.children(item)
            i += 1
        return item

    def text(self, item, with_docs=False):
        return self.src[(item.start if with_docs else item.head_start):item.end]


def split_path(path):
    segs = []
    depth = 0
    cur = ''
    i = 0
    while i < len(path):
        if path.startswith('%%', i):
            # escaped `::` inside a segment (e.g. `impl fmt%%Display for SmtString`)
            cur += '::'
            i += 2
            continue
        if path.startswith('::', i) and depth == 0:
            segs.append(cur.strip())
            cur = ''
            i += 2
            continue
        ch = path[i]
        if ch == '<':
            depth += 1
        elif ch == '>':
            depth -= 1
        cur += ch
        i += 1
    if cur.strip():
        segs.append(cur.strip())
    return segs


def sha(text):
    return hashlib.sha256(text.encode('utf-8')).hexdigest()


if __name__ == '__main__':
    import sys
    sf = SourceFile(sys.argv[1])
    if len(sys.argv) > 2:
        it = sf.find(sys.argv[2])
        print(sf.text(it))
    else:
        def dump(items, ind):
            for it in items:
                print(' ' * ind + '%s %s' % (it.kind, it.name))
                if it.kind in ('impl', 'mod', 'fn', 'trait'):
                    dump(sf.children(it), ind + 2)
        dump(sf.top, 0)
