#!/usr/bin/env python3
"""Regenerate the machine-made tables of DESIGN.md (between the BEGIN/END markers) from
contracts/properties.json, evidence/*.json, seeded/*/meta.json and known_findings.json."""
import json, os, re, glob
V = os.path.dirname(os.path.dirname(os.path.abspath(__file__)))
props = json.load(open(os.path.join(V, 'contracts', 'properties.json')))
na = json.load(open(os.path.join(V, 'contracts', 'not_applicable.json')))
order = [json.loads(l)['id'] for l in open(os.path.join(V, 'properties.jsonl')) if l.strip()]
titles = {json.loads(l)['id']: json.loads(l)['title'] for l in open(os.path.join(V, 'properties.jsonl')) if l.strip()}

def status_table():
    out = ['| id | units verified for it | functions under contract (own + relied on) | obligations discharged | verifier time | bounded stand-in | assumptions (count) |', '|---|---|---|---|---|---|---|']
    for pid in order:
        if pid not in props:
            out.append('| %s | — | — | — | — | — | not applicable: %s |' % (pid, na.get(pid, '')))
            continue
        p = props[pid]
        ev = {}
        try:
            ev = json.load(open(os.path.join(V, 'evidence', pid + '.json')))
        except Exception:
            pass
        cov = ev.get('coverage', {})
        fns = cov.get('functions_under_contract', [])
        own = len([f for f in fns if f.get('tagged')])
        out.append('| %s | %s | %d + %d | %s / %s | %s s | %s | %d |' % (
            pid, ', '.join(p['units']), own, len(fns) - own, cov.get('discharged', '?'), cov.get('obligations', '?'),
            ('%.1f' % (cov.get('solver_ms', 0) / 1000.0)) if 'solver_ms' in cov else '?',
            'yes' if p.get('bounded') else 'no', len(p.get('assumptions', []))))
    return '\n'.join(out)

def seeded_table():
    out = ['| seed | property | function(s) changed | what it breaks (short) | check verdict | decided by | first-run miss? |', '|---|---|---|---|---|---|---|']
    for d in sorted(glob.glob(os.path.join(V, 'seeded', '*'))):
        try:
            m = json.load(open(os.path.join(d, 'meta.json')))
        except Exception:
            continue
        lines = m.get('check_result_latest') or m.get('check_result_first_run', [])
        verdict = 'VIOLATION' if any(l.startswith('VIOLATION') for l in lines) else ('INCONCLUSIVE' if any(l.startswith('INCONCLUSIVE') for l in lines) else 'OK')
        by = []
        for l in lines:
            mm = re.search(r'obligation=(\S+)', l)
            if mm:
                ob = mm.group(1)
                by.append('bounded stand-in' if ob.startswith('bounded:') else ('replay after inconclusive verifier' if ob.startswith('replay:') else 'failed obligation `%s`' % ob))
        has_input = any('failing input' in l for l in lines)
        out.append('| %s | %s | %s | %s | %s | %s%s | %s |' % (
            os.path.basename(d), m.get('property'), ', '.join(m.get('functions_touched', []))[:80],
            (m.get('what_it_breaks', '')[:140].replace('|', '/').replace('\n', ' ')), verdict, '; '.join(sorted(set(by)))[:120],
            ' + failing input' if has_input else '', (m.get('note', '')[:160].replace('|', '/') if m.get('note') else 'no')))
    return '\n'.join(out)

def fixes_table():
    k = json.load(open(os.path.join(V, 'known_findings.json')))
    out = ['| property | commit in /repo | failed obligation | what failed |', '|---|---|---|---|']
    for e in k.get('fixed', []):
        out.append('| %s | %s | `%s` | %s |' % (e['property'], e['commit'], e.get('obligation', ''), e['what'].replace('|', '/')))
    for e in k.get('open', []):
        out.append('| %s | (open) | `%s` | %s |' % (e['property'], e.get('obligation', ''), e['what'].replace('|', '/')))
    return '\n'.join(out)

path = os.path.join(V, 'DESIGN.md')
s = open(path).read()
for name, fn in (('STATUS', status_table), ('SEEDED', seeded_table), ('FIXES', fixes_table)):
    b, e = '<!-- BEGIN %s -->' % name, '<!-- END %s -->' % name
    if b in s and e in s:
        i, j = s.index(b) + len(b), s.index(e)
        s = s[:i] + '\n' + fn() + '\n' + s[j:]
open(path, 'w').write(s)
print('tables regenerated')
