#!/usr/bin/env python3
"""Record the header of every loop that carries invariants (contracts/LOOPS.lock.json), from the current /repo tree.
Run on the unchanged tree after adding or changing `//@ loop` blocks."""
import os, sys, json, glob
sys.path.insert(0, os.path.dirname(os.path.abspath(__file__)))
import assemble as asm
asm._LOOPS_LOCK[0] = {}
for f in sorted(glob.glob(os.path.join(asm.CONTRACTS, '*.vt'))):
    asm.assemble(os.path.basename(f)[:-3])
with open(os.path.join(asm.CONTRACTS, 'LOOPS.lock.json'), 'w') as out:
    json.dump(dict(sorted(asm.LOOPS_SEEN.items())), out, indent=1)
print(len(asm.LOOPS_SEEN), 'loop headers recorded')
