#!/usr/bin/env python3
import json,sys
u=sys.argv[1]
for l in open('/verif/build/%s.err'%u):
    if l.startswith('{'):
        d=json.loads(l)
        if d['level']=='error' and not d['message'].startswith('aborting'):
            print(d['message'][:300], [ (s['line_start'],s['label']) for s in d['spans']])
            for s in d['spans'][:2]:
                print('    ', s['text'][0]['text'].strip()[:160] if s['text'] else '')
    elif l.strip(): print(l.rstrip()[:300])
