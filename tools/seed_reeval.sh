#!/bin/bash
# tools/seed_reeval.sh [jobs] [pattern]: re-run every stored seeded change against the current checks (scratch worktrees under /tmp,
# removed afterwards); records the outcome as check_result_latest in each meta.json and prints one line per seed
J=${1:-4}; PAT=${2:-.}
cd /verif/seeded
ls | grep -E "$PAT" | xargs -P $J -I{} bash -c '
  p=$(python3 -c "import json;print(json.load(open(\"/verif/seeded/{}/meta.json\"))[\"property\"])")
  SEED_SCRATCH=/tmp/sw_{} python3 /verif/tools/seed_store.py /verif/seeded/{} $p > /tmp/sw_{}.log 2>&1
  echo "{} $p $(grep -E "^(VIOLATION|INCONCLUSIVE|OK )" /tmp/sw_{}.log | head -1 | cut -c1-150) $(grep -o "rc [0-9]*" /tmp/sw_{}.log | tail -1)"
  rm -rf /tmp/sw_{}_target /tmp/sw_{}_ev /tmp/sw_{}_build /tmp/sw_{}_apply.err /tmp/sw_{}.log
'
