#!/bin/bash
# run every claimed quick check on the unchanged tree under several solver seeds, in a private build
# directory (evidence goes to a scratch directory); prints only the runs that are not OK
cd /verif
seeds=${*:-1 2 3 4 5}
ids=$(python3 -c "import json;print(' '.join(c['property_id'] for c in json.load(open('MANIFEST.json'))['checks']))")
scratch=$(mktemp -d /tmp/sweep.XXXXXX)
for s in $seeds; do
  for id in $ids; do
    out=$(VERIF_SEED=$s VERIF_EVIDENCE_DIR=$scratch/ev VERIF_BUILD_DIR=$scratch/build ./check $id 2>&1 | tail -1)
    case "$out" in OK*) ;; *) echo "seed=$s $id: $out";; esac
  done
  echo "seed $s done"
done
rm -rf $scratch
