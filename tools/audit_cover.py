#!/usr/bin/env python3
"""List every non-test function of /repo/src that no template (`//@ fn FILE PATH`) extracts.
Usage: tools/audit_cover.py [--json]"""
import os, re, sys, glob, json
HERE = os.path.dirname(os.path.abspath(__file__))
sys.path.insert(0, HERE)
import rsitems
REPO = os.environ.get('VERIF_REPO', '/repo')
covered = {}
for vt in glob.glob(os.path.join(HERE, '..', 'contracts', '*.vt')):
    for line in open(vt, encoding='utf-8'):
        m = re.match(r'//@ fn\?? +(\S+) +(\S+)', line)
        if m:
            covered.setdefault(m.group(1), []).append(m.group(2).replace('~', ' '))
out = {}
for path in sorted(glob.glob(os.path.join(REPO, 'src', '*.rs'))):
    fname = os.path.basename(path)
    sf = rsitems.SourceFile(path)
    hit = set()
    for p in covered.get(fname, []):
        try:
            it = sf.find(p)
            hit.add((it.start, it.end))
        except Exception as e:
            print('!! cannot resolve', fname, p, e, file=sys.stderr)
    def walk(items, prefix, intest):
        for it in items:
            t = intest or any('cfg(test)' in a or a.strip() == '#[test]' for a in (it.attrs or []))
            if it.kind == 'fn':
                if not t and (it.start, it.end) not in hit:
                    # nested in a covered fn?
                    if not any(s <= it.start and it.end <= e for (s, e) in hit):
                        out.setdefault(fname, []).append(prefix + it.name)
            elif it.kind in ('impl', 'mod', 'trait'):
                nm = rsitems.impl_key(it.name) if it.kind == 'impl' else it.name
                walk(sf.children(it), prefix + nm + '::', t or (it.kind == 'mod' and it.name in ('test', 'tests')))
    walk(sf.top, '', False)
if '--json' in sys.argv:
    print(json.dumps(out, indent=1))
else:
    for f, l in out.items():
        print(f, len(l))
        for x in l:
            print('   ', x)
