#!/bin/bash
# tools/neutral_eval.sh <dir-with-patch.diff> : apply a behaviour-preserving edit to a scratch worktree of /repo HEAD,
# run every registered check against it and print one summary line (a VIOLATION here is a false alarm)
D=$1; N=$(basename $D)
SW=/tmp/ne_$N
git -C /repo worktree remove --force $SW >/dev/null 2>&1; rm -rf $SW
git -C /repo worktree add -q --detach $SW HEAD || exit 3
if ! git -C $SW apply $D/patch.diff 2>/dev/null; then echo "$N: patch does not apply"; git -C /repo worktree remove --force $SW; exit 4; fi
out=""
for id in $(python3 -c "import json;print(' '.join(c['property_id'] for c in json.load(open('/verif/MANIFEST.json'))['checks']))"); do
  r=$(cd /verif && VERIF_EVIDENCE_DIR=${SW}_ev VERIF_BUILD_DIR=${SW}_build VERIF_REPO_SRC=$SW/src ./check $id 2>&1 | grep -E "^(OK|VIOLATION|INCONCLUSIVE)" | head -1)
  case "$r" in OK*) out="$out $id:ok";; VIOLATION*) out="$out $id:VIOLATION[$(echo "$r" | grep -o 'obligation=[^ ]*' | cut -c12-70)]";; *) out="$out $id:inconclusive";; esac
done
echo "$N:$out"
git -C /repo worktree remove --force $SW; rm -rf ${SW}_ev ${SW}_build
