#!/bin/bash
# dev helper: tools/mut.sh <PROP> <file> <sed-expr>   -- run a check against a mutated scratch copy of /repo/src
rm -rf /tmp/mut && mkdir -p /tmp/mut && cp -r /repo/src /tmp/mut/src
sed -i "$3" /tmp/mut/src/$2
diff <(cat /repo/src/$2) /tmp/mut/src/$2 | head -8
VERIF_EVIDENCE_DIR=/tmp/mut/evidence VERIF_BUILD_DIR=/tmp/mut/build VERIF_REPO_SRC=/tmp/mut/src /verif/check $1
echo rc=$?
rm -rf /tmp/mut
