#!/bin/bash
# tools/seed_eval.sh <dir-with-patch.diff,demo.rs> <PROP>...  : confirm a seeded change and run the checks on it
D=$1; shift
SW=${SEED_SCRATCH:-/tmp/sw}
export CARGO_TARGET_DIR=${SW}_target CARGO_NET_OFFLINE=true
git -C /repo worktree remove --force $SW >/dev/null 2>&1; rm -rf $SW
git -C /repo worktree add -q --detach $SW HEAD || exit 3
cd $SW
mkdir -p tests; cp $D/demo.rs tests/demo.rs
REL=""; grep -q "release" $D/meta.json 2>/dev/null && grep -qi "cargo test --offline --release" $D/meta.json && REL="--release"
base=$(cargo test --offline $REL --test demo 2>&1 | grep -c "test result: ok")
if ! git apply $D/patch.diff 2>${SW}_apply.err; then echo "SEED $D: patch does not apply to current HEAD: $(head -2 ${SW}_apply.err)"; cd /; git -C /repo worktree remove --force $SW; exit 4; fi
rm -f tests/demo.rs
suite=$(cargo test --offline 2>&1 | grep "test result" | tr '\n' ' ')
cp $D/demo.rs tests/demo.rs
withc=$(cargo test --offline $REL --test demo 2>&1 | grep -c "test result: FAILED")
echo "SEED $D: demo passes on HEAD: $base ; suite with change: $suite ; demo fails with change: $withc"
for P in "$@"; do
  VERIF_EVIDENCE_DIR=${SW}_ev VERIF_BUILD_DIR=${SW}_build VERIF_REPO_SRC=$SW/src /verif/check $P; echo "  check $P rc=$?"
done
cd /; git -C /repo worktree remove --force $SW
