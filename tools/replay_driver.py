#!/usr/bin/env python3
"""Build and run the replay harness (/verif/replay) against the current tree of the crate."""
import os, sys, json, subprocess, shutil, hashlib

TOOLS = os.path.dirname(os.path.abspath(__file__))
VERIF = os.path.dirname(TOOLS)
BUILD = os.environ.get('VERIF_BUILD_DIR') or os.path.join(VERIF, 'build')
REPO_SRC = os.environ.get('VERIF_REPO_SRC', '/repo/src')
REPO_ROOT = os.path.dirname(os.path.abspath(REPO_SRC))
SUPPORTED = {'C20', 'C15', 'C11', 'C12', 'C06', 'C09', 'C17', 'C08', 'C13', 'C01', 'C02', 'C03', 'C04', 'C05', 'C07', 'C10', 'C14', 'C16', 'C18', 'C19'}


def build():
    """returns path of the replay binary or None"""
    tag = hashlib.sha1(REPO_ROOT.encode()).hexdigest()[:10]
    crate = os.path.join(BUILD, 'replay_crate_' + tag)
    os.makedirs(os.path.join(crate, 'src'), exist_ok=True)
    for fn_ in os.listdir(os.path.join(VERIF, 'replay', 'src')):
        shutil.copyfile(os.path.join(VERIF, 'replay', 'src', fn_), os.path.join(crate, 'src', fn_))
    root = REPO_ROOT
    if not os.path.exists(os.path.join(root, 'Cargo.toml')):
        # a bare copy of src/: give it the manifest of /repo
        shutil.copyfile('/repo/Cargo.toml', os.path.join(root, 'Cargo.toml'))
    with open(os.path.join(crate, 'Cargo.toml'), 'w') as f:
        f.write('[package]\nname = "replay"\nversion = "0.1.0"\nedition = "2021"\n\n[dependencies]\naws-smt-strings = { path = "%s" }\n\n[profile.release]\noverflow-checks = false\ndebug = false\n\n[workspace]\n' % root)
    env = dict(os.environ)
    env['CARGO_NET_OFFLINE'] = 'true'
    env['CARGO_TARGET_DIR'] = os.path.join(BUILD, 'replay_target')
    # hooks on (nothing in the public-API oracles needs them today, but checks build /repo with the guard enabled)
    env['RUSTFLAGS'] = '--cfg awslabs_rust_smt_strings_verif --check-cfg cfg(awslabs_rust_smt_strings_verif) -Awarnings'
    p = subprocess.run(['cargo', 'build', '--release', '--offline', '--quiet'], cwd=crate, env=env, capture_output=True, text=True, timeout=900)
    if p.returncode != 0:
        return None, p.stderr[-2000:]
    return os.path.join(env['CARGO_TARGET_DIR'], 'release', 'replay'), ''


def run(binary, pid, seed, budget_ms, case_no=None):
    cmd = [binary, pid, str(seed), str(budget_ms)]
    if case_no is not None:
        cmd.append(str(case_no))
    p = subprocess.run(cmd, capture_output=True, text=True, timeout=budget_ms / 1000 + 120)
    for l in p.stdout.split('\n'):
        l = l.strip()
        if l.startswith('{'):
            try:
                return json.loads(l)
            except Exception:
                pass
    return {'found': False, 'error': 'no output (rc=%d) %s' % (p.returncode, p.stderr[-300:])}


def search(pid, failure, seed, budget_s):
    """Look for a concrete failing input for property pid on the real code."""
    if pid not in SUPPORTED:
        return {'found': False, 'supported': False}
    b, err = build()
    if b is None:
        return {'found': False, 'error': 'replay harness does not build against this tree: ' + err}
    r = run(b, pid, seed, int(budget_s * 1000))
    if r.get('found'):
        r['input_repr'] = r.get('input')
        r['replay_cmd'] = './check %s --replay <this file>' % pid
    return r


def replay_file(path):
    d = json.load(open(path))
    fi = d.get('failing_input') or {}
    pid = d.get('property')
    if not fi or not fi.get('found'):
        print('replay file carries no failing input (verifier output only):')
        print(d.get('verifier_output', '')[:2000])
        return 0
    b, err = build()
    if b is None:
        print('cannot build replay harness:', err)
        return 2
    r = run(b, pid, fi.get('seed', 0), 600000, fi.get('case_no'))
    if r.get('found'):
        print('VIOLATION property=%s replay=%s' % (pid, path))
        print('  oracle=%s input=%s expected=%s got=%s' % (r.get('oracle'), r.get('input'), r.get('expected'), r.get('got')))
        return 1
    print('replayed case %s of %s: passes on this tree' % (fi.get('case_no'), pid))
    return 0


if __name__ == '__main__':
    pid = sys.argv[1]
    print(json.dumps(search(pid, None, int(sys.argv[2]) if len(sys.argv) > 2 else 0, float(sys.argv[3]) if len(sys.argv) > 3 else 20), indent=1))
