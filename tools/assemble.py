#!/usr/bin/env python3
"""Assemble a Verus file from a contract template and /repo's current source.

Template (contracts/<unit>.vt): Verus text plus `//@` directives.  The real
items are re-extracted from the working tree on every run (rsitems.py); this
module applies only the rewrite rules catalogued in DESIGN.md §2.1 and counts
how often each fired.

Directives
  //@ include <path-relative-to-contracts>
  //@ use-unit <unit>                 inline another unit with every exec fn as an
                                      external_body stub carrying the same contract
  //@ item <file> <path> [structural] [keepderive=A,B] [as=<name>]
  //@ fn <file> <path> [props=C20,C11] [ret=name] [assumed] [vis=...] [noverify]
      //@ spec            (following lines: requires/ensures/decreases text)
      //@ loop N [iter=NAME]   (following lines: invariant/decreases text)
      //@ before "anchor" [#k]  /  //@ after "anchor" [#k]   (following lines inserted)
      //@ rewrite Rk <<<old>>> => <<<new>>> [count=n]
      //@ nested <name> ... //@ endnested
  //@ end
"""
import os
import re
import sys
import json

sys.path.insert(0, os.path.dirname(os.path.abspath(__file__)))
import rsitems
from rsitems import lex, sig, match_close, SourceFile, sha

VERIF = os.path.dirname(os.path.dirname(os.path.abspath(__file__)))
CONTRACTS = os.path.join(VERIF, 'contracts')
REPO_SRC = os.environ.get('VERIF_REPO_SRC', '/repo/src')


LENIENT = [False]
SKIPPED = []


def soft_drift(msg):
    """In lenient mode a lost hint is skipped (and recorded); otherwise it is a Drift."""
    if LENIENT[0]:
        SKIPPED.append(msg)
        return True
    raise Drift(msg)


def note_drift(msg):
    """The code moved away from what a hint was written for, but the hint can still be applied: strict assembling
    raises (the driver then assembles leniently), lenient assembling records the note and goes on."""
    if LENIENT[0]:
        SKIPPED.append(msg)
        return
    raise Drift(msg)


_LOOPS_LOCK = [None]
LOOPS_SEEN = {}


def loops_lock():
    if _LOOPS_LOCK[0] is None:
        try:
            with open(os.path.join(CONTRACTS, 'LOOPS.lock.json')) as f:
                _LOOPS_LOCK[0] = json.load(f)
        except Exception:
            _LOOPS_LOCK[0] = {}
    return _LOOPS_LOCK[0]


class Drift(Exception):
    """Template and source no longer line up (lost item / loop / anchor)."""


class Block:
    def __init__(self):
        self.spec = []
        self.loops = {}      # n -> (iter_name, [lines])
        self.anchors = []    # (where, anchor, occurrence, [lines])
        self.rewrites = []   # (rule, old, new, count)
        self.nested = {}     # name -> Block
        self.attrs = []      # attributes put in front of the fn (and of its vacuity clone)
        self.opts = {}


def parse_opts(words):
    opts = {}
    for w in words:
        if '=' in w:
            k, v = w.split('=', 1)
            opts[k] = v
        else:
            opts[w] = True
    return opts


REWRITE_RE = re.compile(r'rewrite\s+(R\d+)\s+<<<(.*?)>>>\s*=>\s*<<<(.*?)>>>(?:\s+count=(\d+|any))?\s*$', re.S)


def parse_fn_block(lines, i, end_marker='end'):
    """lines[i] is the first line after the `//@ fn` (or nested) header."""
    blk = Block()
    cur = None
    while i < len(lines):
        ln = lines[i]
        st = ln.strip()
        if st.startswith('//@'):
            body = st[3:].strip()
            # multi-line rewrite: join until the closing >>> of the new text
            if body.startswith('rewrite') and not REWRITE_RE.match(body):
                j = i
                acc = body
                while not REWRITE_RE.match(acc):
                    j += 1
                    if j >= len(lines):
                        raise Drift('unterminated rewrite directive')
                    nxt = lines[j]
                    nst = nxt.strip()
                    acc += '\n' + (nst[3:].lstrip(' ') if nst.startswith('//@') else nxt.rstrip('\n'))
                body = acc
                i = j
            if body == end_marker:
                return blk, i + 1
            words = body.split()
            if words[0] == 'attr':
                blk.attrs.append(body[len('attr'):].strip())
            elif words[0] == 'spec':
                cur = blk.spec
            elif words[0] == 'loop':
                n = int(words[1])
                o = parse_opts(words[2:])
                cur = []
                blk.loops[n] = (o.get('iter'), cur)
            elif words[0] == 'r5':
                kind = words[1]
                occ = 1
                for w in words[2:]:
                    if w.startswith('#'):
                        occ = int(w[1:])
                blk.rewrites.append(('R5:' + kind, None, None, occ))
                cur = None
            elif words[0] in ('loop-start', 'loop-end', 'after-loop'):
                cur = []
                blk.anchors.append((words[0], '', int(words[1]), cur))
            elif words[0] == 'r5-proof':
                cur = []
                blk.anchors.append(('r5-proof', '', 1, cur))
            elif words[0] in ('before-result', 'at-end', 'at-start'):
                cur = []
                blk.anchors.append((words[0], '', 1, cur))
            elif words[0] in ('before', 'after', 'after-block', 'before?', 'after?', 'after-block?'):
                m = re.match(r'(before\??|after-block\??|after\??)\s+"(.*)"\s*(#(\d+))?$', body)
                if not m:
                    raise Drift('bad anchor directive: ' + body)
                cur = []
                blk.anchors.append((m.group(1), m.group(2), int(m.group(4) or 1), cur))
            elif words[0] == 'rewrite':
                m = REWRITE_RE.match(body)
                blk.rewrites.append((m.group(1), m.group(2), m.group(3), -1 if m.group(4) == 'any' else int(m.group(4) or 1)))
                cur = None
            elif words[0] == 'nested':
                sub, i2 = parse_fn_block(lines, i + 1, 'endnested')
                sub.opts = parse_opts(words[2:])
                blk.nested[words[1]] = sub
                i = i2
                cur = None
                continue
            else:
                raise Drift('unknown directive in fn block: ' + body)
        else:
            if cur is not None:
                cur.append(ln.rstrip('\n'))
            elif st:
                raise Drift('stray text in fn block: ' + st)
        i += 1
    raise Drift('fn block without //@ ' + end_marker)


KEEP_DERIVES = {'Clone', 'Copy', 'PartialEq', 'Eq', 'Default'}
DROP_ATTR = re.compile(r'#\[(allow|inline|must_use|doc|cfg_attr|warn|deny)\b')


class Counter(dict):
    def bump(self, k, n=1):
        self[k] = self.get(k, 0) + n


def strip_docs_attrs(text, counts):
    """R1 on a fn/item text: drop doc comments and lint attributes."""
    toks = lex(text)
    out = []
    k = 0
    while k < len(toks):
        t = toks[k]
        if t.kind == 'doc':
            counts.bump('R1')
            # also drop the newline after it
            k += 1
            if k < len(toks) and toks[k].kind == 'ws':
                ws = toks[k].text
                nl = ws.find('\n')
                out.append(ws[nl + 1:] if nl >= 0 else ws)
                k += 1
            continue
        if t.kind == 'punct' and t.text == '#':
            s = sig(toks[k:k + 6])
            j = k + 1
            while j < len(toks) and toks[j].kind == 'ws':
                j += 1
            if j < len(toks) and toks[j].text == '[':
                close = match_close(toks, j)
                attr = text[t.start:toks[close].end]
                if DROP_ATTR.match(attr):
                    counts.bump('R1')
                    k = close + 1
                    if k < len(toks) and toks[k].kind == 'ws':
                        ws = toks[k].text
                        nl = ws.find('\n')
                        out.append(ws[nl + 1:] if nl >= 0 else ws)
                        k += 1
                    continue
        out.append(t.text)
        k += 1
    return ''.join(out)


def render_item(sf, item, opts, counts):
    """R1 + R2 on a struct/enum/const/type item."""
    text = sf.text(item)
    derives = [a for a in item.attrs if a.startswith('#[derive')]
    text = ''.join(d + '\n' for d in derives) + text
    text = strip_docs_attrs(text, counts)
    keep = set(KEEP_DERIVES)
    if 'keepderive' in opts:
        keep = set(opts['keepderive'].split(',')) if opts['keepderive'] != 'none' else set()

    def derive_sub(m):
        names = [x.strip() for x in m.group(1).split(',') if x.strip()]
        kept = [x for x in names if x in keep]
        if len(kept) != len(names):
            counts.bump('R1')
        if opts.get('structural') and 'PartialEq' in kept and 'Eq' in kept:
            kept.append('Structural')
        return '#[derive(%s)]' % ', '.join(kept) if kept else ''
    text = re.sub(r'#\[derive\(([^)]*)\)\]', derive_sub, text)
    if opts.get('external'):
        # the item is compiled as it is but left outside verification (listed by the assumption scan)
        return '#[verifier::external]\n' + text.strip() + '\n'
    if item.kind in ('struct', 'union'):
        toks = lex(text)
        s = sig(toks)
        out_ins = []
        # find body bracket
        seen_kw = False
        for pos, k in enumerate(s):
            if toks[k].kind == 'ident' and toks[k].text in ('struct', 'union'):
                seen_kw = True
            if not seen_kw:
                continue
            if toks[k].text in ('{', '('):
                opener = toks[k].text
                close = match_close(toks, k)
                depth = 0
                expect = True
                for kk in s[pos + 1:]:
                    if kk >= close:
                        break
                    tt = toks[kk]
                    if tt.kind == 'punct' and tt.text in rsitems.OPEN:
                        depth += 1
                    elif tt.kind == 'punct' and tt.text in rsitems.CLOSE:
                        depth -= 1
                    if depth == 0 and expect and not (tt.kind == 'punct' and tt.text == '#'):
                        if tt.text != 'pub':
                            out_ins.append(tt.start)
                            counts.bump('R2')
                        expect = False
                    if depth == 0 and tt.kind == 'punct' and tt.text == ',':
                        expect = True
                    # generic args contain commas: track < >
                break
            if toks[k].text == ';':
                break
        # generics in field types (`HashMap<K, V>`) contain depth-0 commas:
        # filter insertion points that are inside <...>
        good = []
        for off in out_ins:
            pre = text[:off]
            # count angle depth since the body opener
            body_start = max(pre.rfind('{'), pre.rfind('('))
            seg = pre[body_start:]
            ang = 0
            for ch_i, ch in enumerate(seg):
                if ch == '<':
                    ang += 1
                elif ch == '>' and ch_i > 0 and seg[ch_i - 1] != '-':
                    ang -= 1
            if ang == 0:
                good.append(off)
            else:
                counts.bump('R2', -1)
        for off in sorted(good, reverse=True):
            text = text[:off] + 'pub ' + text[off:]
    if not re.match(r'\s*(#\[[^\]]*\]\s*)*pub\b', text):
        m = re.match(r'(\s*(#\[[^\]]*\]\s*)*)', text)
        text = text[:m.end()] + 'pub ' + text[m.end():]
        counts.bump('R2')
    if 'as' in opts:
        text = re.sub(r'\b%s\b' % re.escape(item.name), opts['as'], text, count=1)
    return text


def split_clauses(lines):
    """Split spec text into (keyword, clause_text, name) triples."""
    text = '\n'.join(lines)
    clauses = []
    kw = None
    # tokenise to split at depth-0 commas and keywords
    toks = lex(text)
    depth = 0
    cur = []
    cur_name = None

    def flush():
        nonlocal cur, cur_name
        body = ''.join(cur).strip()
        if body:
            clauses.append((kw, body, cur_name))
        cur = []
        cur_name = None
    for t in toks:
        if t.kind == 'comment':
            m = re.search(r'@ob\s+(\S+)', t.text)
            if m:
                cur_name = m.group(1)
                if not ''.join(cur).strip() and clauses:
                    # comment after the comma belongs to previous clause
                    k0, b0, n0 = clauses[-1]
                    if n0 is None:
                        clauses[-1] = (k0, b0, m.group(1))
                        cur_name = None
            continue
        if t.kind == 'punct' and t.text in rsitems.OPEN:
            depth += 1
        elif t.kind == 'punct' and t.text in rsitems.CLOSE:
            depth -= 1
        if depth == 0 and t.kind == 'ident' and t.text in ('requires', 'ensures', 'decreases', 'invariant', 'invariant_except_break', 'recommends', 'no_unwind', 'opens_invariants', 'returns') and not ''.join(cur).strip():
            flush()
            kw = t.text
            continue
        if depth == 0 and t.kind == 'punct' and t.text == ',':
            flush()
            continue
        cur.append(t.text)
    flush()
    return clauses


def fn_signature_span(text):
    """offsets (body_open, arrow_start, ret_start, ret_end) in a fn item text."""
    toks = lex(text)
    s = sig(toks)
    # first `fn`
    p = 0
    while toks[s[p]].text != 'fn':
        p += 1
    # name, generics, params
    p += 2
    if toks[s[p]].text == '<':
        depth = 0
        while True:
            tt = toks[s[p]].text
            if tt == '<':
                depth += 1
            elif tt == '>' and toks[s[p - 1]].text != '-':
                depth -= 1
                if depth == 0:
                    p += 1
                    break
            p += 1
    if toks[s[p]].text != '(':
        raise Drift('cannot find parameter list')
    close = match_close(toks, s[p])
    while s[p] <= close:
        p += 1
    arrow = ret_start = ret_end = None
    if toks[s[p]].text == '-' and toks[s[p + 1]].text == '>':
        arrow = toks[s[p]].start
        ret_start = toks[s[p + 2]].start
        p += 2
    # scan to body `{` or `where` at depth 0
    depth = 0
    q = p
    while True:
        tt = toks[s[q]]
        if tt.kind == 'punct' and tt.text in ('(', '['):
            cl = match_close(toks, s[q])
            while s[q] <= cl:
                q += 1
            continue
        if tt.kind == 'punct' and tt.text == '{':
            body_open = tt.start
            if arrow is not None and ret_end is None:
                ret_end = toks[s[q - 1]].end
            break
        if tt.kind == 'ident' and tt.text == 'where':
            if arrow is not None and ret_end is None:
                ret_end = toks[s[q - 1]].end
        q += 1
    params_close = toks[close].end
    return body_open, arrow, ret_start, ret_end, params_close


LOOP_KW = ('while', 'for', 'loop')


def find_loops(body):
    """Return list of (kw_offset, brace_offset, kind, in_offset_end) for the
    loops in `body`, in textual order."""
    toks = lex(body)
    s = sig(toks)
    res = []
    for pos, k in enumerate(s):
        t = toks[k]
        if t.kind == 'ident' and t.text in LOOP_KW:
            if pos > 0 and toks[s[pos - 1]].text in ('.', 'fn'):
                continue
            if t.text == 'for' and pos + 1 < len(s) and toks[s[pos + 1]].text == '<':
                continue
            # labels: 'a: loop
            q = pos + 1
            in_end = None
            pat_start = toks[s[q]].start if q < len(s) else None
            while q < len(s):
                tt = toks[s[q]]
                if tt.kind == 'punct' and tt.text in ('(', '['):
                    cl = match_close(toks, s[q])
                    while q < len(s) and s[q] <= cl:
                        q += 1
                    continue
                if t.text == 'for' and in_end is None and tt.kind == 'ident' and tt.text == 'in':
                    in_end = tt.end
                if tt.kind == 'punct' and tt.text == '{':
                    res.append({'kw': t.start, 'brace': tt.start, 'kind': t.text, 'in_end': in_end,
                                'pat_start': pat_start, 'in_start': None})
                    break
                q += 1
    return res


CHAIN_STOP_IDENTS = {'if', 'else', 'return', 'match', 'let', 'in', 'while', 'for', 'loop', 'mut', 'as', 'break'}


def r5_expand(body, kind, occ, qual_name):
    """R5: definitional expansion of a slice/str iterator adapter with a closure:
    E.map(|P| B).collect() / E.all(|P| B) / E.any(|P| B) -> the explicit loop.
    P and B are copied from the source text."""
    toks = lex(body)
    s = sig(toks)
    meth = {'map-collect': 'map', 'map-iter': 'map', 'all': 'all', 'any': 'any', 'fold': 'fold'}[kind]
    hits = []
    for pos in range(len(s) - 3):
        if toks[s[pos]].text == '.' and toks[s[pos + 1]].kind == 'ident' and toks[s[pos + 1]].text == meth and toks[s[pos + 2]].text == '(' and (toks[s[pos + 3]].text == '|' or kind == 'fold'):
            hits.append(pos)
    if len(hits) < occ:
        raise Drift('%s: R5 %s #%d: adapter call not found' % (qual_name, kind, occ))
    pos = hits[occ - 1]
    open_paren = s[pos + 2]
    close_paren = match_close(toks, open_paren)
    init_text = None
    if kind == 'fold':
        # .fold(INIT, |A, P| B): find the closure's opening bar at depth 0 inside the call
        q0 = pos + 3
        depth = 0
        while True:
            tt = toks[s[q0]]
            if tt.kind == 'punct' and tt.text in rsitems.OPEN:
                depth += 1
            elif tt.kind == 'punct' and tt.text in rsitems.CLOSE:
                depth -= 1
            if depth == 0 and tt.kind == 'punct' and tt.text == ',':
                break
            q0 += 1
        init_text = body[toks[s[pos + 3]].start:toks[s[q0]].start].strip()
        if toks[s[q0 + 1]].text != '|':
            raise Drift('%s: R5 fold: closure not found' % qual_name)
        # two closure parameters A, P
        q = q0 + 2
        a_start = toks[s[q]].start
        while toks[s[q]].text != ',':
            q += 1
        acc_name = body[a_start:toks[s[q - 1]].end]
        pos_pat = q + 1
        q = pos_pat
        pat_start = toks[s[q]].start
        while toks[s[q]].text != '|':
            q += 1
        pat_end = toks[s[q - 1]].end
        b_start = toks[s[q + 1]].start
        last = max(k for k in s if k < close_paren)
        b_end = toks[last].end
        pat = body[pat_start:pat_end]
        cbody = body[b_start:b_end]
        end = toks[close_paren].end
        r = pos - 1
        while r >= 0:
            t = toks[s[r]]
            if t.kind == 'punct' and t.text in (')', ']'):
                depth = 0
                k = s[r]
                while k >= 0:
                    tt = toks[k]
                    if tt.kind == 'punct' and tt.text in rsitems.CLOSE:
                        depth += 1
                    elif tt.kind == 'punct' and tt.text in rsitems.OPEN:
                        depth -= 1
                        if depth == 0:
                            break
                    k -= 1
                r = s.index(k) - 1
                continue
            if (t.kind == 'ident' and t.text not in CHAIN_STOP_IDENTS) or t.kind in ('num', 'lifetime') or (t.kind == 'punct' and t.text in ('.', ':')):
                r -= 1
                continue
            break
        recv_start = toks[s[r + 1]].start
        recv = body[recv_start:toks[s[pos]].start].strip()
        new = '{ let mut vx_acc = %s; for %s in %s { let %s = vx_acc; vx_acc = %s; } vx_acc }' % (init_text, pat, recv, acc_name, cbody)
        return body[:recv_start] + new + body[end:]
    # closure: | P | B
    q = pos + 4
    pat_start = toks[s[q]].start
    while toks[s[q]].text != '|':
        q += 1
    pat_end = toks[s[q - 1]].end
    b_start = toks[s[q + 1]].start
    # last significant token before close paren
    last = max(k for k in s if k < close_paren)
    b_end = toks[last].end
    pat = body[pat_start:pat_end]
    cbody = body[b_start:b_end]
    end = toks[close_paren].end
    if kind == 'map-collect':
        # expect .collect()
        after = [k for k in s if k > close_paren][:4]
        texts = [toks[k].text for k in after]
        if texts[:4] != ['.', 'collect', '(', ')']:
            raise Drift('%s: R5 map-collect: .collect() does not follow .map(..)' % qual_name)
        end = toks[after[3]].end
    # receiver: walk back over the postfix chain
    r = pos - 1
    while r >= 0:
        t = toks[s[r]]
        if t.kind == 'punct' and t.text in (')', ']'):
            # jump to matching open
            depth = 0
            k = s[r]
            while k >= 0:
                tt = toks[k]
                if tt.kind == 'punct' and tt.text in rsitems.CLOSE:
                    depth += 1
                elif tt.kind == 'punct' and tt.text in rsitems.OPEN:
                    depth -= 1
                    if depth == 0:
                        break
                k -= 1
            r = s.index(k) - 1
            continue
        if t.kind == 'ident' and t.text not in CHAIN_STOP_IDENTS:
            r -= 1
            continue
        if t.kind in ('num', 'lifetime'):
            r -= 1
            continue
        if t.kind == 'punct' and t.text in ('.', ':'):
            r -= 1
            continue
        if t.kind == 'punct' and t.text == '&':
            # a unary borrow at the start of the receiver; `a && b` / `a & b` end the chain
            prev = toks[s[r - 1]] if r >= 1 else None
            if prev is None or (prev.kind == 'punct' and prev.text in ('(', ',', '=', '{', ';', '|', '!', '[')) or (prev.kind == 'ident' and prev.text in CHAIN_STOP_IDENTS):
                r -= 1
            break
        break
    recv_start = toks[s[r + 1]].start
    recv = body[recv_start:toks[s[pos]].start].strip()
    if kind == 'map-collect':
        new = '{ let mut vx_v = Vec::new(); for %s in %s { vx_v.push(%s); } /*@R5E@*/ vx_v }' % (pat, recv, cbody)
    elif kind == 'map-iter':
        # the lazily mapped iterator is represented by the vector of the items it yields
        new = '{ let mut vx_v = Vec::new(); for %s in %s { vx_v.push(%s); } /*@R5E@*/ vx_v }.into_iter()' % (pat, recv, cbody)
    elif kind == 'all':
        new = '{ let mut vx_all = true; for %s in %s { if vx_all && !(%s) { vx_all = false; } } vx_all }' % (pat, recv, cbody)
    else:
        new = '{ let mut vx_any = false; for %s in %s { if !vx_any && (%s) { vx_any = true; } } vx_any }' % (pat, recv, cbody)
    return body[:recv_start] + new + body[end:]


def apply_ref_patterns(body, counts):
    """R4: `for &x in E {` -> `for x__r in E { let x = *x__r;`"""
    changed = True
    while changed:
        changed = False
        m = re.search(r'\bfor\s+&\s*([A-Za-z_][A-Za-z0-9_]*)\s+in\b', body)
        if m:
            name = m.group(1)
            # find loop brace
            loops = [l for l in find_loops(body) if l['kw'] == m.start()]
            if not loops:
                raise Drift('R4: cannot locate loop body')
            br = loops[0]['brace']
            body = body[:br + 1] + ' let %s = *%s__r;' % (name, name) + body[br + 1:]
            body = body[:m.start()] + 'for %s__r in' % name + body[m.end():]
            counts.bump('R4')
            changed = True
    return body


def line_anchor(body, anchor, occurrence):
    lines = body.split('\n')
    hits = [i for i, l in enumerate(lines) if re.sub(r'/\*@[LI]\d+@\*/', '', l).strip().startswith(anchor)]
    if len(hits) < occurrence:
        raise Drift('anchor %r (#%d) not found' % (anchor, occurrence))
    return lines, hits[occurrence - 1]


def annotate_fn(sf, item, blk, counts, meta, mode, qual_name, extra_ensures=None, rename=None):
    """Return Verus text of the fn `item` with the contract `blk` applied."""
    src_text = sf.text(item)
    text = strip_docs_attrs(src_text, counts)
    body_open, arrow, ret_start, ret_end, params_close = fn_signature_span(text)
    sig_text = text[:body_open]
    body = text[body_open:]
    retname = blk.opts.get('ret', 'ret')
    if arrow is not None:
        rt = text[ret_start:ret_end]
        sig_text = text[:ret_start] + '(%s: %s)' % (retname, rt.strip()) + text[ret_end:body_open]
        counts.bump('R3')
    if rename:
        sig_text = re.sub(r'\bfn\s+%s\b' % re.escape(item.name), 'fn ' + rename, sig_text, count=1)
    if 'vis' in blk.opts:
        pass
    if not re.match(r'\s*pub\b', sig_text) and not blk.opts.get('nopub') and not blk.opts.get('traitfn'):
        sig_text = 'pub ' + sig_text.lstrip()
        counts.bump('R2')
    spec_lines = list(blk.spec)
    clauses = split_clauses(spec_lines)
    spec_text = '\n'.join(spec_lines)
    if extra_ensures:
        if any(k == 'ensures' for k, _, _ in clauses):
            # append to the ensures list: put before a trailing decreases if any
            idx = None
            for li, l in enumerate(spec_lines):
                if re.match(r'\s*decreases\b', l):
                    idx = li
                    break
            ins = '        ' + extra_ensures + ','
            # make sure previous clause ends with a comma
            tgt = spec_lines[:idx] if idx is not None else spec_lines
            j = len(tgt) - 1
            while j >= 0 and not tgt[j].strip():
                j -= 1
            if j >= 0:
                code = re.sub(r'//.*$', '', tgt[j]).rstrip()
                if not code.endswith(','):
                    cm = tgt[j][len(code):]
                    tgt[j] = code + ',' + cm
            if idx is not None:
                spec_lines = tgt + [ins] + spec_lines[idx:]
            else:
                spec_lines = tgt + [ins]
        else:
            idx = None
            for li, l in enumerate(spec_lines):
                if re.match(r'\s*decreases\b', l):
                    idx = li
                    break
            ins = '    ensures ' + extra_ensures + ','
            if idx is not None:
                j = idx - 1
                while j >= 0 and not spec_lines[j].strip():
                    j -= 1
                if j >= 0:
                    code = re.sub(r'//.*$', '', spec_lines[j]).rstrip()
                    if not code.endswith(','):
                        spec_lines[j] = code + ',' + spec_lines[j][len(code):]
                spec_lines = spec_lines[:idx] + [ins] + spec_lines[idx:]
            else:
                j = len(spec_lines) - 1
                while j >= 0 and not spec_lines[j].strip():
                    j -= 1
                if j >= 0:
                    code = re.sub(r'//.*$', '', spec_lines[j]).rstrip()
                    if not code.endswith(','):
                        spec_lines[j] = code + ',' + spec_lines[j][len(code):]
                spec_lines = spec_lines + [ins]
        spec_text = '\n'.join(spec_lines)

    fmeta = {'path': qual_name, 'file': os.path.basename(sf.path), 'sha256': sha(src_text),
             'clauses': [{'kw': k, 'name': n, 'text': b} for k, b, n in clauses],
             'n_invariants': 0, 'mode': mode, 'props': blk.opts.get('props', '').split(',') if blk.opts.get('props') else []}

    if mode == 'stub' or blk.opts.get('assumed'):
        for rule, old, new, cnt in blk.rewrites:
            if old is not None and sig_text.count(old):
                sig_text = sig_text.replace(old, new)
        if blk.opts.get('assumed'):
            fmeta['mode'] = 'assumed'
            counts.bump('R9')
        meta.append(fmeta)
        return '#[verifier::external_body]\n' + sig_text.rstrip() + '\n' + spec_text + ('\n' if spec_text else '') + '{ unimplemented!() }\n'

    # ---- body ----
    # nested fns first
    nested_items = [it for it in sf.children(item) if it.kind == 'fn']
    placeholders = {}
    # offsets of nested items relative to `text` are unknown after stripping,
    # so re-parse the stripped body
    body_items = rsitems.parse_items(body, 1, len(body) - 1, lex(body), in_fn=True)
    for bi in sorted(body_items, key=lambda x: -x.start):
        if bi.kind != 'fn':
            continue
        nm = bi.name
        orig = [it for it in nested_items if it.name == nm]
        if not orig:
            raise Drift('nested fn %s vanished' % nm)
        sub = blk.nested.get(nm, Block())
        if nm not in blk.nested:
            sub.opts = {}
        sub.opts.setdefault('nopub', True)
        if sub.opts.get('drop'):
            # R9: a nested fn that is dead code (never called) is dropped from the verified text
            counts.bump('R9-dropped-dead-code')
            key = '__VX_NESTED_%s__' % nm
            placeholders[key] = ''
            body = body[:bi.start] + 'fn %s() {}' % key + body[bi.end:]
            continue
        ntext = annotate_fn(sf, orig[0], sub, counts, meta, mode, qual_name + '::' + nm)
        key = '__VX_NESTED_%s__' % nm
        placeholders[key] = ntext
        body = body[:bi.start] + 'fn %s() {}' % key + body[bi.end:]
    for nm in blk.nested:
        if '__VX_NESTED_%s__' % nm not in placeholders:
            soft_drift('nested fn %s not found in %s' % (nm, qual_name))

    # rewrites
    for rule, old, new, cnt in blk.rewrites:
        if rule.startswith('R5:'):
            try:
                body = r5_expand(body, rule[3:], cnt, qual_name)
                counts.bump('R5')
            except Drift as e:
                soft_drift(str(e))
            continue
        n = body.count(old) + sig_text.count(old)
        if n == 0 and re.search(r'\s', old):
            # multi-line old text: match it modulo the amount of white space
            rx = re.compile(r'\s+'.join(re.escape(t) for t in old.split()))
            hits = rx.findall(body)
            if hits:
                body = rx.sub(lambda m_: new, body)
                counts.bump(rule, len(hits))
                if cnt not in (-1, len(hits)):
                    soft_drift('%s: rewrite %s expects %d match(es) of %r, found %d' % (qual_name, rule, cnt, old, len(hits)))
                continue
        if n != cnt and cnt != -1:
            soft_drift('%s: rewrite %s expects %d match(es) of %r, found %d' % (qual_name, rule, cnt, old, n))
        if n == 0 and cnt == -1:
            continue
        body = body.replace(old, new)
        sig_text = sig_text.replace(old, new)
        counts.bump(rule, max(cnt, n) if cnt == -1 else cnt)

    body = apply_ref_patterns(body, counts)
    # R4 (generic): `Some(&x) => EXPR,` (single-line arm) -> `Some(x__r) => { let x = *x__r; EXPR },`
    def _some_ref(m):
        counts.bump('R4')
        return '%sSome(%s__r) => { let %s = *%s__r; %s },' % (m.group(1), m.group(2), m.group(2), m.group(2), m.group(3).strip())
    body = re.sub(r'(?m)^(\s*)Some\(&([A-Za-z_][A-Za-z0-9_]*)\) => ([^\n{]+),\s*$', _some_ref, body)
    # R7 (generic): debug_assert_eq!(a, b) / assert_eq!(a, b) -> debug_assert!(a == b) / assert!(a == b)
    def _eq_sub(m):
        counts.bump('R7')
        return '%s!((%s) == (%s));' % (m.group(1), m.group(2).strip(), m.group(3).strip())
    body = re.sub(r'\b(debug_assert|assert)_eq!\(([^,;]+),([^;]+)\);', _eq_sub, body)

    # loops
    loops = find_loops(body)
    if blk.loops and max(blk.loops) > len(loops):
        soft_drift('%s: contract names loop %d but the body has %d loops' % (qual_name, max(blk.loops), len(loops)))
    inserts = []
    marker_text = {}
    for n, (iter_name, lines) in blk.loops.items():
        if n > len(loops):
            continue
        lp = loops[n - 1]
        # the invariants were written for one loop header (`while i + p_len <= s_len`, `for k in 0..n`, `loop`): a loop
        # of another shape needs other invariants, so a changed header counts as drift (contracts/LOOPS.lock.json)
        header = re.sub(r'\s+', ' ', body[lp['kw']:lp['brace']]).strip()
        lkey = '%s#%d' % (qual_name, n)
        LOOPS_SEEN[lkey] = header
        want = loops_lock().get(lkey)
        if want is not None and want != header and not rename:
            note_drift('%s: loop %d header changed (invariants were written for `%s`, found `%s`)' % (qual_name, n, want, header))
        inv_text = '\n'.join(lines)
        fmeta['n_invariants'] += len([c for c in split_clauses(lines) if c[0] in ('invariant', 'invariant_except_break', 'ensures')])
        inserts.append((lp['brace'], '/*@L%d@*/' % n))
        marker_text['/*@L%d@*/' % n] = '\n' + inv_text + '\n'
        if iter_name:
            if lp['kind'] != 'for' or lp['in_end'] is None:
                soft_drift('%s: loop %d is not a for loop' % (qual_name, n))
                continue
            inserts.append((lp['in_end'], '/*@I%d@*/' % n))
            marker_text['/*@I%d@*/' % n] = ' %s:' % iter_name
    for where, anchor, occ, lines in blk.anchors:
        if where in ('loop-start', 'loop-end', 'after-loop'):
            if occ > len(loops):
                soft_drift('%s: %s %d but the body has %d loops' % (qual_name, where, occ, len(loops)))
                continue
            lp = loops[occ - 1]
            btoks = lex(body)
            k0 = [k for k, t in enumerate(btoks) if t.start == lp['brace'] and t.kind == 'punct']
            cl = match_close(btoks, k0[0])
            key = '/*@%s%d@*/' % ({'loop-start': 'LS', 'loop-end': 'LE', 'after-loop': 'LA'}[where], occ)
            txt = '\n' + '\n'.join(lines) + '\n'
            if where == 'loop-end' and key not in marker_text:
                # the loop body may end with an expression statement without `;` (of type ()): close it
                prev = body[:btoks[cl].start].rstrip()
                if prev and prev[-1] not in ';{}':
                    txt = ';' + txt
            if key in marker_text:
                marker_text[key] += txt
            else:
                marker_text[key] = txt
                if where == 'loop-start':
                    inserts.append((lp['brace'] + 1, key))
                elif where == 'loop-end':
                    inserts.append((btoks[cl].start, key))
                else:
                    inserts.append((btoks[cl].end, key))
            counts.bump('R3')
    # at equal offsets the loop-start marker must come after the invariant marker
    order = {'L': 0, 'I': 0}
    for off, ins in sorted(inserts, key=lambda x: (-x[0], 0 if x[1].startswith('/*@LS') else 1)):
        body = body[:off] + ins + body[off:]
    if blk.loops:
        counts.bump('R3', len(blk.loops))

    # anchors
    for where, anchor, occ, lines in blk.anchors:
        if where in ('loop-start', 'loop-end', 'after-loop'):
            continue
        if where == 'r5-proof':
            if '/*@R5E@*/' not in body:
                soft_drift('%s: r5-proof without an R5 map expansion' % qual_name)
                continue
            body = body.replace('/*@R5E@*/', '\n' + '\n'.join(lines) + '\n', 1)
            counts.bump('R3')
            continue
        if where == 'at-start':
            b0 = body.find('{')
            body = body[:b0 + 1] + '\n' + '\n'.join(lines) + '\n' + body[b0 + 1:]
            counts.bump('R3')
            continue
        if where == 'at-end':
            e = body.rstrip().rfind('}')
            body = body[:e] + '\n' + '\n'.join(lines) + '\n' + body[e:]
            counts.bump('R3')
            continue
        if where == 'before-result':
            # before the last non-empty line of the fn body (its result expression)
            blines = body.split('\n')
            li = len(blines) - 1
            while li >= 0 and blines[li].strip() in ('', '}'):
                li -= 1
            if li < 0:
                raise Drift('%s: no result line' % qual_name)
            blines[li:li] = list(lines)
            body = '\n'.join(blines)
            counts.bump('R3')
            continue
        optional = where.endswith('?')
        where = where.rstrip('?')
        try:
            blines, li = line_anchor(body, anchor, occ)
        except Drift as e:
            if optional:
                counts.bump('optional-anchor-skipped')
                continue
            soft_drift('%s: %s' % (qual_name, e))
            continue
        ins = list(lines)
        if where == 'after-block':
            off = sum(len(l) + 1 for l in blines[:li])
            br = body.find('{', off + blines[li].find(anchor) + len(anchor) - 1)
            if br < 0 or br > off + len(blines[li]):
                br = body.rfind('{', off, off + len(blines[li]) + 1)
            if br < 0:
                raise Drift('%s: after-block anchor %r has no block' % (qual_name, anchor))
            btoks = lex(body)
            k0 = [k for k, t in enumerate(btoks) if t.start == br and t.kind == 'punct']
            if not k0:
                raise Drift('%s: after-block anchor %r: brace not a token' % (qual_name, anchor))
            cl = match_close(btoks, k0[0])
            e = btoks[cl].end
            body = body[:e] + '\n' + '\n'.join(ins) + '\n' + body[e:]
            counts.bump('R3')
            continue
        if where == 'before':
            blines[li:li] = ins
        else:
            blines[li + 1:li + 1] = ins
        body = '\n'.join(blines)
        counts.bump('R3')

    for mk, mt in marker_text.items():
        body = body.replace(mk, mt)
    body = body.replace('/*@R5E@*/', '')
    for key, ntext in placeholders.items():
        body = body.replace('fn %s() {}' % key, ntext)

    meta.append(fmeta)
    attrs = ''.join(a + '\n' for a in blk.attrs)
    return attrs + sig_text.rstrip() + '\n' + spec_text + ('\n' if spec_text else '') + body + '\n'


class Assembled:
    def __init__(self):
        self.text = ''
        self.meta = []       # per fn
        self.counts = Counter()
        self.items = []      # copied non-fn items {path, sha256}
        self.includes = []


_sf_cache = {}


def get_sf(fname):
    p = os.path.join(REPO_SRC, fname)
    if p not in _sf_cache:
        if not os.path.exists(p):
            raise Drift('source file %s missing' % fname)
        try:
            _sf_cache[p] = SourceFile(p)
        except rsitems.LexError as e:
            raise Drift('cannot lex %s: %s' % (fname, e))
    return _sf_cache[p]


def stub_proof_fns(text):
    """In stub mode, turn every `proof fn` with a body into external_body so
    lemma libraries are not re-verified by importing units."""
    try:
        toks = lex(text)
    except rsitems.LexError:
        return text
    items = rsitems.parse_items(text, 0, len(text), toks)
    out = text
    for it in sorted(items, key=lambda x: -x.start):
        if it.kind != 'fn' or it.body_open is None:
            continue
        head = text[it.head_start:it.body_open]
        if not re.search(r'\bproof\s+fn\b', head):
            continue
        out = out[:it.head_start] + '#[verifier::external_body]\n' + head + '{ unimplemented!() }' + out[it.end:]
    return out


def assemble(unit, mode='verify', vacuity=False, seen=None, top=True, only_props=None):
    """mode: 'verify' | 'stub'.  vacuity: add a `<fn>__vac` clone with
    `ensures false` after every verified exec fn."""
    res = Assembled()
    seen = seen if seen is not None else set()
    path = os.path.join(CONTRACTS, unit + '.vt')
    with open(path, encoding='utf-8') as f:
        lines = f.read().split('\n')
    out = []
    deferred = []
    vac_counter = [0]
    i = 0
    while i < len(lines):
        ln = lines[i]
        st = ln.strip()
        if not st.startswith('//@'):
            out.append(ln)
            i += 1
            continue
        words = st[3:].split()
        d = words[0]
        if d == 'include':
            key = ('inc', words[1])
            if key in seen:
                i += 1
                continue
            seen.add(key)
            with open(os.path.join(CONTRACTS, words[1]), encoding='utf-8') as f:
                inc = f.read()
            if mode == 'stub' or vacuity:
                inc = stub_proof_fns(inc)
            res.includes.append(words[1])
            out.append('// ---- include %s ----' % words[1])
            out.append(inc)
            i += 1
        elif d == 'use-unit':
            key = ('unit', words[1])
            if key in seen:
                i += 1
                continue
            seen.add(key)
            sub = assemble(words[1], mode='stub', seen=seen, top=False)
            out.append('// ---- unit %s (imported contracts) ----' % words[1])
            out.append(sub.text)
            out.append('// ---- end unit %s ----' % words[1])
            for m in sub.meta:
                m2 = dict(m)
                m2['mode'] = 'imported' if m['mode'] != 'assumed' else 'assumed'
                m2['unit'] = m.get('unit', words[1])
                res.meta.append(m2)
            for k, v in sub.counts.items():
                res.counts.bump(k, v)
            res.items += sub.items
            res.includes += sub.includes
            i += 1
        elif d == 'item':
            sf = get_sf(words[1])
            opts = parse_opts(words[3:]) if len(words) > 3 else {}
            ipath = words[2].replace('~', ' ')
            try:
                item = sf.find(ipath)
            except KeyError as e:
                raise Drift(str(e))
            out.append(render_item(sf, item, opts, res.counts))
            res.items.append({'path': words[1] + '::' + ipath, 'sha256': sha(sf.text(item))})
            i += 1
        elif d == 'fn':
            sf = get_sf(words[1])
            fpath = words[2].replace('~', ' ')
            blk, i = parse_fn_block(lines, i + 1)
            blk.opts = parse_opts(words[3:])
            try:
                item = sf.find(fpath)
            except KeyError as e:
                raise Drift(str(e))
            if item.kind != 'fn':
                raise Drift('%s is not a fn' % fpath)
            qual = words[1] + '::' + fpath
            fmode = mode
            n0 = len(res.meta)
            will_clone = vacuity and mode == 'verify' and not blk.opts.get('assumed') and not blk.opts.get('novac')
            # in the vacuity variant the original is only a contract stub: the clone carries the body
            txt = annotate_fn(sf, item, blk, res.counts, res.meta, 'stub' if will_clone else fmode, qual)
            for m in res.meta[n0:]:
                m['unit'] = unit
            out.append(txt)
            if vacuity and mode == 'verify' and not blk.opts.get('assumed') and not blk.opts.get('novac'):
                junk = []
                vac_counter[0] += 1
                vname = item.name + '__vac' + (str(vac_counter[0]) if blk.opts.get('traitfn') else '')
                vt = annotate_fn(sf, item, blk, Counter(), junk, 'verify', qual, extra_ensures='false', rename=vname)
                if blk.opts.get('traitfn'):
                    # a clone cannot live in the trait impl: defer it to an inherent impl
                    segs = rsitems.split_path(fpath)
                    im = sf.find(segs[0].replace('::', '%%'))
                    mh = re.match(r'impl\s*(<.*?>)?\s*[A-Za-z_:]+(<.*>)?\s+for\s+(.*)$', re.sub(r'\s+', ' ', im.name))
                    gens = mh.group(1) or ''
                    selfty = mh.group(3)
                    keep, move = [], []
                    if gens:
                        depth = 0
                        cur = ''
                        parts = []
                        for ch in gens[1:-1]:
                            if ch in '<([':
                                depth += 1
                            elif ch in '>)]':
                                depth -= 1
                            if ch == ',' and depth == 0:
                                parts.append(cur.strip())
                                cur = ''
                            else:
                                cur += ch
                        if cur.strip():
                            parts.append(cur.strip())
                        for prm in parts:
                            nm = re.sub(r"^const\s+", '', prm).split(':')[0].strip()
                            (keep if re.search(r"(?<![A-Za-z0-9_'])%s(?![A-Za-z0-9_])" % re.escape(nm), selfty) else move).append(prm)
                    if move:
                        vt = re.sub(r'\bfn\s+%s\b' % re.escape(vname), 'fn %s<%s>' % (vname, ', '.join(move)), vt, count=1)
                    deferred.append('impl%s %s {\n%s\n}' % (('<' + ', '.join(keep) + '>') if keep else '', selfty, vt))
                else:
                    out.append(vt)
        elif d == 'unit-only':
            # text that only appears when this unit is the one being verified
            j = i + 1
            buf = []
            while lines[j].strip() != '//@ end-unit-only':
                buf.append(lines[j])
                j += 1
            if top and mode == 'verify':
                out += buf
            i = j + 1
        else:
            raise Drift('unknown directive: ' + st)
    out += deferred
    body = '\n'.join(out)
    if top:
        hdr = '#![allow(unused_imports, unused_variables, unused_mut, dead_code, unused_assignments, unused_parens, non_snake_case, unreachable_code)]\nuse vstd::prelude::*;\nuse vstd::std_specs::iter::IteratorSpec;\nuse std::cmp::Ordering;\nuse std::collections::{HashMap, HashSet, VecDeque};\nuse std::hash::Hash;\nverus! {\n'
        ftr = '\n'
        if vacuity:
            ftr += 'proof fn vx_canary() ensures false {}\n'
        ftr += '} // verus!\nfn main() {}\n'
        body = hdr + body + ftr
    res.text = body
    return res


def locate_functions(text):
    """Map line numbers of the assembled file to enclosing fn names (outermost
    fn items inside verus!{}), for attributing diagnostics."""
    spans = []
    toks = lex(text)
    m = re.search(r'verus!\s*\{', text)
    start = m.end()
    end = text.rfind('} // verus!')
    def walk(lo, hi, prefix):
        for it in rsitems.parse_items(text, lo, hi, toks):
            if it.kind == 'fn':
                l0 = text.count('\n', 0, it.head_start) + 1
                l1 = text.count('\n', 0, it.end) + 1
                spans.append((l0, l1, prefix + it.name))
            elif it.kind in ('impl', 'mod', 'trait') and it.body_open is not None:
                nm = it.name
                if it.kind == 'impl':
                    nm = rsitems.impl_key(nm)
                    nm = nm[5:]
                    if ' for ' in nm:
                        nm = nm.split(' for ')[1]
                walk(it.body_open + 1, it.body_close, prefix + nm + '::')
    walk(start, end, '')
    return spans


if __name__ == '__main__':
    import argparse
    ap = argparse.ArgumentParser()
    ap.add_argument('unit')
    ap.add_argument('-o', '--out')
    ap.add_argument('--vacuity', action='store_true')
    a = ap.parse_args()
    try:
        r = assemble(a.unit, vacuity=a.vacuity)
    except Drift as e:
        print('DRIFT:', e, file=sys.stderr)
        sys.exit(2)
    if a.out:
        with open(a.out, 'w') as f:
            f.write(r.text)
        with open(a.out + '.meta.json', 'w') as f:
            json.dump({'functions': r.meta, 'rules': r.counts, 'items': r.items, 'includes': r.includes}, f, indent=1)
    else:
        sys.stdout.write(r.text)
