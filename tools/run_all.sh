#!/bin/bash
# run every claimed check on the unchanged tree (refreshes evidence/)
cd /verif
for id in $(python3 -c "import json;print(' '.join(c['property_id'] for c in json.load(open('MANIFEST.json'))['checks']))"); do
  ./check $id --tier ${1:-quick} || echo "!! $id rc=$?"
done
